"""C19 - sessions are isolated; custom types are per session (absence rules on shared mutable state)."""
from __future__ import annotations

import ast
from typing import Dict, List, Optional, Set, Tuple

from ..report import Finding, Run
from ..sessrules import SESSION_CLASSES
from ..srcmodel import AnalysisError, Model, norm, walk_no_nested

SESSION_MOD = "sansldap._session"
MUTATORS = {"append", "extend", "insert", "pop", "remove", "clear", "sort", "reverse", "add", "discard", "update", "setdefault", "popitem", "__setitem__", "__delitem__"}
# calls whose result is immutable (or not state at all): a module-level name bound to one of them is a constant
PURE_MODULE_CALLS = ("re.compile", "t.TypeVar", "typing.TypeVar", "TypeVar", "enum.auto", "dataclasses.field",
                     "ord", "chr", "len", "int", "str", "bytes", "float", "bool", "frozenset", "tuple", "range", "struct.Struct",
                     "struct.calcsize", "bytes.fromhex", "str.maketrans", "bytes.maketrans", "min", "max", "abs", "hex", "repr", "format",
                     "operator.attrgetter", "operator.itemgetter", "operator.methodcaller", "attrgetter", "itemgetter", "methodcaller")
# reviewed exception (I3): an idempotent memo in the enum's own value map; results are equal with or without the cache entry
class _Reviewed(dict):
    """The reviewed exceptions, keyed by (class.method, construct): which module of the package the class lives in is not part of what
    was reviewed (an enum moved to a module of its own keeps its memo)."""

    @staticmethod
    def _k(key):
        fq, construct = key
        return (".".join(fq.split(".")[-2:]), construct)

    def __contains__(self, key):
        return isinstance(key, tuple) and len(key) == 2 and dict.__contains__(self, self._k(key))

    def __getitem__(self, key):
        return dict.__getitem__(self, self._k(key))


REVIEWED = _Reviewed({("LDAPResultCode._missing_", "cls._value2member_map_.setdefault"): "idempotent memo of unknown result codes inside the enum class itself"})

FIXTURE = '''
import re
_CACHE = {}
_SHARED = []
_WRITER = object()
PATTERN = re.compile("a")
class Opt:
    choices = []
def f(x):
    _CACHE[id(x)] = 1
def g(x):
    _SHARED.append(x)
def h():
    global _WRITER
    _WRITER = None
def k(c):
    Opt.choices.append(c)
'''


def immutable_ctor(v: ast.Call, tree: ast.Module) -> bool:
    """A module-level call that builds an immutable value: a NamedTuple / enum class of the module, or tuple/frozenset/bytes/str/int."""
    name = norm(v.func).split(".")[-1]
    if norm(v.func) in ("functools.partial", "partial") and v.args:
        # a partial application holds its arguments for good: immutable when they are (constants, names, immutable constructions)
        def imm(a) -> bool:
            if isinstance(a, (ast.Constant, ast.Name, ast.Attribute)):
                return True
            if isinstance(a, ast.Tuple):
                return all(imm(x) for x in a.elts)
            return isinstance(a, ast.Call) and (norm(a.func) in PURE_MODULE_CALLS or immutable_ctor(a, tree))
        return all(imm(a) for a in list(v.args) + [k.value for k in v.keywords])
    if name in ("tuple", "frozenset", "bytes", "str", "int", "float", "bool", "object"):
        return name != "object" or True
    for st in tree.body:
        if isinstance(st, ast.ClassDef) and st.name == name:
            bases = [norm(b).split(".")[-1] for b in st.bases]
            if any(b in ("NamedTuple", "Enum", "IntEnum", "Flag", "IntFlag") for b in bases):
                return True
    return name in IMMUTABLE_IMPORTED


IMMUTABLE_IMPORTED = {"ASN1Tag", "ASN1Header"}     # NamedTuples of asn1.py (checked against the source at run time in check())


def module_mutables(tree: ast.Module) -> Dict[str, ast.AST]:
    """module-level names bound to something mutable (display, or a call that is not a known pure constructor)."""
    out: Dict[str, ast.AST] = {}
    for st in tree.body:
        tg = None
        v = None
        if isinstance(st, ast.Assign) and len(st.targets) == 1 and isinstance(st.targets[0], ast.Name):
            tg, v = st.targets[0].id, st.value
        elif isinstance(st, ast.AnnAssign) and isinstance(st.target, ast.Name) and st.value is not None:
            tg, v = st.target.id, st.value
        if tg is None:
            continue
        if isinstance(v, (ast.List, ast.Dict, ast.Set, ast.ListComp, ast.DictComp, ast.SetComp)):
            out[tg] = st
        elif isinstance(v, ast.Call) and isinstance(v.func, ast.Attribute) and v.func.attr in ("pack", "encode", "to_bytes", "tobytes", "hex", "decode") and \
                isinstance(st, ast.AnnAssign) and norm(st.annotation) in ("bytes", "str"):
            pass        # `_PAYLOAD: bytes = Message(...).pack(options)`: what is kept is the immutable result, the objects that made it are gone
        elif isinstance(v, ast.Call) and norm(v.func) not in PURE_MODULE_CALLS and not immutable_ctor(v, tree):
            out[tg] = st
    return out


def shared_state_writes(modname: str, tree: ast.Module, class_names: Set[str]) -> List[Tuple[str, str, ast.AST, str]]:
    """(function, construct, node, why) for every write to module-level or class-level state from inside a function."""
    muts = module_mutables(tree)
    out = []

    def visit_func(fn: ast.AST, qual: str):
        local_stores = {n.id for n in ast.walk(fn) if isinstance(n, ast.Name) and isinstance(n.ctx, ast.Store)} | {a.arg for a in ast.walk(fn) if isinstance(a, ast.arg)}
        globs: Set[str] = set()
        for n in ast.walk(fn):
            if isinstance(n, ast.Global):
                globs |= set(n.names)
        for n in ast.walk(fn):
            if isinstance(n, ast.Global):
                out.append((qual, f"global {', '.join(n.names)}", n, "rebinds module-level state"))
            # NAME[k] = v / del NAME[k] / NAME.attr = v
            if isinstance(n, (ast.Subscript, ast.Attribute)) and isinstance(n.ctx, (ast.Store, ast.Del)):
                root = n.value
                while isinstance(root, (ast.Subscript, ast.Attribute)):
                    root = root.value
                if isinstance(root, ast.Name) and root.id not in local_stores and (root.id in muts or root.id in class_names):
                    out.append((qual, norm(n), n, f"stores into module/class-level object `{root.id}`"))
            # NAME.mutator(...) / Class.attr.mutator(...)
            if isinstance(n, ast.Call) and isinstance(n.func, ast.Attribute) and n.func.attr in MUTATORS:
                root = n.func.value
                chain = root
                while isinstance(chain, (ast.Subscript, ast.Attribute)):
                    chain = chain.value
                if isinstance(chain, ast.Name) and ((chain.id not in local_stores and (chain.id in muts or (chain.id in class_names and isinstance(root, ast.Attribute))))
                                                    or (chain.id == "cls" and isinstance(root, ast.Attribute))):
                    out.append((qual, norm(n.func), n, f"mutates module/class-level object `{norm(root)}`"))
            # any use of a module-level mutable instance created by a non-pure call (a shared writer, a cache object)
            if isinstance(n, ast.Name) and isinstance(n.ctx, ast.Load) and n.id in muts and n.id not in local_stores and isinstance(muts[n.id], (ast.Assign, ast.AnnAssign)):
                v = muts[n.id].value
                if isinstance(v, ast.Call):
                    out.append((qual, n.id, n, f"uses the module-level object `{n.id}` created once at import ({norm(v)[:40]}): shared by every session"))
    for st in tree.body:
        if isinstance(st, (ast.FunctionDef, ast.AsyncFunctionDef)):
            visit_func(st, f"{modname}.{st.name}")
        elif isinstance(st, ast.ClassDef):
            for m in st.body:
                if isinstance(m, (ast.FunctionDef, ast.AsyncFunctionDef)):
                    visit_func(m, f"{modname}.{st.name}.{m.name}")
    return out


def class_level_mutables(cnode: ast.ClassDef) -> List[Tuple[str, ast.AST]]:
    out = []
    for st in cnode.body:
        v = None
        nm = None
        if isinstance(st, ast.Assign) and len(st.targets) == 1 and isinstance(st.targets[0], ast.Name):
            nm, v = st.targets[0].id, st.value
        elif isinstance(st, ast.AnnAssign) and isinstance(st.target, ast.Name) and st.value is not None:
            nm, v = st.target.id, st.value
        if v is None:
            continue
        if isinstance(v, (ast.List, ast.Dict, ast.Set)):
            out.append((nm, st))
        elif isinstance(v, ast.Call) and norm(v.func).split(".")[-1] in ("list", "dict", "set", "bytearray"):
            out.append((nm, st))
        elif isinstance(v, ast.Call) and norm(v.func).split(".")[-1] == "field":
            for k in v.keywords:
                if k.arg == "default" and isinstance(k.value, (ast.List, ast.Dict, ast.Set, ast.Call)):
                    out.append((nm, st))
    return out


def fresh(e: ast.expr, model: Model, module: str, params: Set[str], locals_ok: Set[str], _depth: int = 0) -> Tuple[bool, str]:
    """Is the value of e freshly allocated / immutable (not shared with anything outside this call)?"""
    if isinstance(e, ast.Constant):
        return True, "literal"
    if isinstance(e, (ast.List, ast.Dict, ast.Set, ast.Tuple)):
        for x in ast.iter_child_nodes(e):
            if isinstance(x, ast.expr):
                ok, why = fresh(x, model, module, params, locals_ok, _depth)
                if not ok:
                    return ok, why
        return True, "display"
    if isinstance(e, ast.Name):
        if e.id in locals_ok:
            return True, "local constant"
        if e.id not in params and model.resolve_name(module, e.id) in model.classes:
            return True, "class object"
        if e.id in params:
            return False, f"parameter `{e.id}` (caller-owned object stored in the session)"
        # a module-level name bound once to an immutable literal (a hoisted default such as the string encoding)
        gq = model.resolve_name(module, e.id)
        if gq and gq.rsplit(".", 1)[0] in model.modules:
            gm, gn = gq.rsplit(".", 1)
            sts = [s_ for s_ in model.modules[gm].globals_.get(gn, []) if isinstance(s_, (ast.Assign, ast.AnnAssign))]
            if len(sts) == 1 and len(model.modules[gm].globals_.get(gn, [])) == 1 and sts[0].value is not None and isinstance(sts[0].value, ast.Constant) and \
                    isinstance(sts[0].value.value, (str, bytes, int, float, bool, type(None))):
                return True, "module-level immutable literal"
        return False, f"module-level name `{e.id}`"
    if isinstance(e, ast.Attribute):
        q = model.resolve_name(module, norm(e.value)) if isinstance(e.value, (ast.Name, ast.Attribute)) else None
        if q in model.classes and model.classes[q].is_enum:
            return True, "enum member"
        return False, f"attribute `{norm(e)}`"
    if isinstance(e, ast.Call):
        q = model.resolve_name(module, norm(e.func)) if isinstance(e.func, (ast.Name, ast.Attribute)) else None
        is_ctor = q in model.classes or norm(e.func) in ("set", "bytearray", "list", "dict", "bytes", "super().__init__")
        if not is_ctor:
            # a package factory function: undecorated (no cache), and every return value is itself fresh given fresh arguments
            fi = model.functions.get(q) if q else None
            if fi is not None and fi.cls is None and not isinstance(fi.node, ast.Lambda) and not fi.node.decorator_list and _depth < 3:
                ps = fi.params()
                bound = {ps[i]: a for i, a in enumerate(e.args) if i < len(ps)}
                bound.update({k.arg: k.value for k in e.keywords if k.arg in ps})
                ok_params = set()
                for p_, a in bound.items():
                    ok, why = fresh(a, model, module, params, locals_ok, _depth + 1)
                    if ok:
                        ok_params.add(p_)
                stores = {x.id for x in walk_no_nested(fi.node) if isinstance(x, ast.Name) and isinstance(x.ctx, ast.Store)}
                ok_params -= stores
                loc_ok = {t.id for s_ in fi.node.body if isinstance(s_, ast.Assign) and isinstance(s_.value, ast.Constant) for t in s_.targets if isinstance(t, ast.Name)}
                # a local bound once to a fresh value and then only grown with fresh elements is itself fresh
                for s_ in fi.node.body:
                    if isinstance(s_, (ast.Assign, ast.AnnAssign)) and s_.value is not None:
                        tg = s_.targets[0] if isinstance(s_, ast.Assign) else s_.target
                        if isinstance(tg, ast.Name) and tg.id not in ps:
                            binds = [x for x in walk_no_nested(fi.node) if isinstance(x, ast.Name) and x.id == tg.id and isinstance(x.ctx, ast.Store)]
                            okv, _ = fresh(s_.value, model, fi.module, set(ps) - ok_params, ok_params | loc_ok, _depth + 1)
                            uses_ok = True
                            for u in walk_no_nested(fi.node):
                                if isinstance(u, ast.Call) and isinstance(u.func, ast.Attribute) and isinstance(u.func.value, ast.Name) and u.func.value.id == tg.id:
                                    if u.func.attr not in ("append", "extend", "add", "insert") or not all(fresh(a, model, fi.module, set(ps) - ok_params, ok_params | loc_ok, _depth + 1)[0] for a in u.args):
                                        uses_ok = False
                            if len(binds) == 1 and okv and uses_ok:
                                loc_ok.add(tg.id)
                rets = [r for r in walk_no_nested(fi.node) if isinstance(r, ast.Return)]
                if rets and all(r.value is not None for r in rets) and not any(isinstance(x, (ast.Global, ast.Nonlocal, ast.Yield, ast.YieldFrom)) for x in ast.walk(fi.node)):
                    for r in rets:
                        ok, why = fresh(r.value, model, fi.module, set(ps) - ok_params, ok_params | loc_ok, _depth + 1)
                        if not ok:
                            return False, f"result of `{norm(e.func)}`, which returns {why}"
                    return True, "factory function returning a fresh allocation"
            return False, f"result of `{norm(e.func)}` (not a constructor)"
        if norm(e.func) in ("set", "bytearray", "list", "dict", "bytes", "frozenset") and len(e.args) <= 1 and not e.keywords:
            return True, "copying constructor"          # bytearray(x) / list(x) copy their argument: the result is nobody else's
        for a in list(e.args) + [k.value for k in e.keywords]:
            ok, why = fresh(a, model, module, params, locals_ok, _depth)
            if not ok:
                return ok, why
        return True, "constructor call"
    if isinstance(e, ast.Subscript) and isinstance(e.slice, ast.Slice) and isinstance(e.value, ast.Attribute) and isinstance(e.value.value, ast.Name) and \
            e.value.value.id == "self" and e.value.attr in locals_ok:
        return True, "slice (a copy) of a container the session owns"
    return False, f"expression `{norm(e)[:40]}`"


def check(model: Model, run: Run) -> None:
    run.explanation = ("absence rules over the whole package: I1 every session attribute is created in __init__ from a fresh allocation and the session classes have no "
                       "class-level mutable attribute; I2 option dataclasses build their choice lists with a default_factory that returns a fresh display; I3/I4 no function "
                       "writes module-level or class-level state (one reviewed exception) and no module-level mutable object created at import is used by any function; "
                       "I5 every options argument on the encode/decode paths is rooted at a parameter or at self._packing_options; I6 register_* refuse duplicates before "
                       "appending to the session's own list. A known-bad fixture is analysed on every run so that the zero-count rules cannot pass vacuously. "
                       "The interleaving statement itself follows from absence of shared mutable state on paper")
    for nm in IMMUTABLE_IMPORTED:
        c = model.classes.get(f"sansldap.asn1.{nm}")
        if c is None or not any(b.endswith("NamedTuple") for b in c.bases):
            raise AnalysisError(f"{nm} is no longer a NamedTuple: the immutable-constructor list of C19 must be reviewed")
    # ---- fixture: the rules must fire on it ------------------------------------------------
    ftree = ast.parse(FIXTURE)
    fw = shared_state_writes("fixture", ftree, {"Opt"})
    kinds = {w[0] for w in fw}
    need = {"fixture.f", "fixture.g", "fixture.h", "fixture.k"}
    ok = need <= kinds and bool(class_level_mutables([n for n in ftree.body if isinstance(n, ast.ClassDef)][0]))
    run.ob("I0-fixture-detected", ok, {"fixture_functions_flagged": sorted(kinds)})
    if not ok:
        raise AnalysisError(f"C19 self-check: known-bad fixture not fully detected ({sorted(kinds)})")
    # ---- I1 -------------------------------------------------------------------------------------
    n_attrs = 0
    for q in SESSION_CLASSES:
        c = model.cls(q)
        for nm, st in class_level_mutables(c.node):
            run.ob("I1-no-class-level-mutable", False)
            run.fail(Finding("I1-no-class-level-mutable", q, nm, f"{c.name}.{nm} is a class-level mutable attribute: shared by every session", model.loc(c.module, st)))
        run.ob("I1-no-class-level-mutable", True, {"class": c.name})
        init = c.methods.get("__init__")
        if init is None:
            continue
        params = set(init.params()[1:])
        locals_ok = {t.id for s in init.node.body if isinstance(s, ast.Assign) and isinstance(s.value, ast.Constant) for t in s.targets if isinstance(t, ast.Name)}
        # a parameter declared as a value that cannot be changed (a str, an int, a bool, bytes, an enum member) is not an object two
        # sessions could share state through, as long as the constructor does not re-bind it to something else
        stored_ = {x.id for x in ast.walk(init.node) if isinstance(x, ast.Name) and isinstance(x.ctx, ast.Store)}
        a_ = init.node.args
        for p_ in a_.posonlyargs + a_.args + a_.kwonlyargs:
            an_ = norm(p_.annotation) if p_.annotation is not None else ""
            for w_ in ("t.Optional[", "typing.Optional[", "Optional["):
                if an_.startswith(w_) and an_.endswith("]"):
                    an_ = an_[len(w_):-1]
            cq_ = model.resolve_name(c.module, an_) if an_ else None
            if p_.arg in params and p_.arg not in stored_ and (an_ in ("str", "int", "bool", "bytes", "float") or (cq_ in model.classes and model.classes[cq_].is_enum)):
                params.discard(p_.arg)
                locals_ok.add(p_.arg)
        # locals that copy a module-level immutable literal are just as constant
        for s in init.node.body:
            if isinstance(s, ast.Assign) and isinstance(s.value, ast.Name) and s.value.id not in params and fresh(s.value, model, c.module, params, set())[0]:
                locals_ok |= {t.id for t in s.targets if isinstance(t, ast.Name)}
        for s in walk_no_nested(init.node):
            if isinstance(s, (ast.Assign, ast.AnnAssign)) and s.value is not None:
                for t in (s.targets if isinstance(s, ast.Assign) else [s.target]):
                    if isinstance(t, ast.Attribute) and isinstance(t.value, ast.Name) and t.value.id == "self":
                        n_attrs += 1
                        ok, why = fresh(s.value, model, c.module, params, locals_ok)
                        run.ob("I1-attributes-freshly-allocated", ok, {"class": c.name, "attribute": t.attr, "value": norm(s.value)[:60], "why": why})
                        if not ok:
                            run.fail(Finding("I1-attributes-freshly-allocated", init.qualname, f"self.{t.attr} = {norm(s.value)[:60]}",
                                             f"session attribute `{t.attr}` is initialised from {why}, not from a fresh allocation: state would be shared between sessions", model.loc(c.module, s)))
    run.floor("session attributes created in __init__", n_attrs, 7)
    # I8: the containers a session owns stay its own - wherever one of them is re-assigned (the residue after a receive, a reset on
    # closing) the new value is again a fresh allocation, never the caller's buffer or another object's list
    n_re = 0
    for q in SESSION_CLASSES:
        c = model.cls(q)
        init = c.methods.get("__init__") or model.find_method(q, "__init__")
        owned = set()
        for k in c.mro:
            kc = model.classes.get(k)
            ini = kc.methods.get("__init__") if kc else None
            if ini is None:
                continue
            for s_ in walk_no_nested(ini.node):
                if isinstance(s_, (ast.Assign, ast.AnnAssign)) and s_.value is not None:
                    for t in (s_.targets if isinstance(s_, ast.Assign) else [s_.target]):
                        if isinstance(t, ast.Attribute) and isinstance(t.value, ast.Name) and t.value.id == "self" and \
                                (isinstance(s_.value, (ast.List, ast.Dict, ast.Set)) or (isinstance(s_.value, ast.Call) and norm(s_.value.func) in ("set", "bytearray", "list", "dict"))):
                            owned.add(t.attr)
        for mname, mfi in c.methods.items():
            if mname == "__init__":
                continue
            ps = set(mfi.params()[1:])
            for s_ in walk_no_nested(mfi.node):
                if isinstance(s_, (ast.Assign, ast.AnnAssign)) and s_.value is not None:
                    for t in (s_.targets if isinstance(s_, ast.Assign) else [s_.target]):
                        if isinstance(t, ast.Attribute) and isinstance(t.value, ast.Name) and t.value.id == "self" and t.attr in owned:
                            n_re += 1
                            val = s_.value
                            # a local that is only another name for an owned container (`buffer = self._outgoing_buffer`)
                            al = {}
                            for a_ in walk_no_nested(mfi.node):
                                if isinstance(a_, ast.Assign) and len(a_.targets) == 1 and isinstance(a_.targets[0], ast.Name) and isinstance(a_.value, ast.Attribute) and \
                                        isinstance(a_.value.value, ast.Name) and a_.value.value.id == "self" and a_.value.attr in owned:
                                    nm_ = a_.targets[0].id
                                    if sum(1 for x in walk_no_nested(mfi.node) if isinstance(x, ast.Name) and x.id == nm_ and isinstance(x.ctx, ast.Store)) == 1:
                                        al[nm_] = a_.value
                            if al:
                                import copy as _cp

                                class _A(ast.NodeTransformer):
                                    def visit_Name(self, n_):
                                        return _cp.deepcopy(al[n_.id]) if isinstance(n_.ctx, ast.Load) and n_.id in al else n_
                                val = _A().visit(_cp.deepcopy(val))
                            ok, why = fresh(val, model, c.module, ps, set(owned))
                            run.ob("I8-owned-containers-stay-fresh", ok, {"class": c.name, "method": mname, "attribute": t.attr, "value": norm(s_.value)[:60], "why": why})
                            if not ok:
                                run.fail(Finding("I8-owned-containers-stay-fresh", mfi.qualname, f"self.{t.attr} = {norm(s_.value)[:60]}",
                                                 f"{c.name}.{mname} re-assigns the session's own `{t.attr}` from {why}: the session then shares a mutable object with its caller "
                                                 "or with another session", model.loc(c.module, s_)))
    run.floor("re-assignments of session-owned containers", n_re, 3)
    # attributes first assigned outside __init__ (created lazily) in session classes
    for q in SESSION_CLASSES:
        c = model.cls(q)
        init_attrs = set()
        for k in c.mro:
            kc = model.classes.get(k)
            if kc and "__init__" in kc.methods:
                init_attrs |= {t.attr for n in ast.walk(kc.methods["__init__"].node) if isinstance(n, (ast.Assign, ast.AnnAssign)) for t in (n.targets if isinstance(n, ast.Assign) else [n.target]) if isinstance(t, ast.Attribute)}
        for name, fi in c.methods.items():
            for n in ast.walk(fi.node):
                if isinstance(n, ast.Attribute) and isinstance(n.value, ast.Name) and n.value.id == "self" and isinstance(n.ctx, ast.Load) and n.attr.startswith("_") and not n.attr.startswith("__"):
                    if n.attr not in init_attrs and model.find_method(q, n.attr) is None:
                        run.ob("I1-attributes-created-in-init", False)
                        run.fail(Finding("I1-attributes-created-in-init", fi.qualname, f"self.{n.attr}", f"`self.{n.attr}` is read but never created in __init__ (falls back to class-level state)", model.loc(c.module, n)))
        run.ob("I1-attributes-created-in-init", True)
    # ---- I2 -----------------------------------------------------------------------------------------
    n_opts = 0
    for cq, c in model.classes.items():
        if not (c.is_dataclass and c.name.endswith("Options")):
            continue
        n_opts += 1
        for f in model.dataclass_fields(cq):
            ann = norm(f.annotation) if f.annotation is not None else ""
            mutable_typed = any(k in ann for k in ("List", "list", "Dict", "dict", "Set", "Options"))
            if not mutable_typed:
                continue
            ok, why = False, "no default_factory"
            if f.default_factory is not None:
                df = f.default_factory
                if isinstance(df, ast.Lambda):
                    ok, why = fresh(df.body, model, c.module, set(), set())
                    if isinstance(df.body, ast.List):
                        ok = all(isinstance(x, ast.Name) and (model.resolve_name(c.module, x.id) in model.classes) for x in df.body.elts)
                        why = "fresh list of classes" if ok else "list holds something other than class objects"
                elif isinstance(df, ast.Name):
                    q = model.resolve_name(c.module, df.id)
                    ok = q in model.classes or df.id in ("list", "dict", "set")
                    why = "constructor as factory" if ok else f"factory `{df.id}` is not a constructor"
                    if not ok and q in model.functions:
                        call = ast.copy_location(ast.Call(func=df, args=[], keywords=[]), df)
                        ok, why = fresh(call, model, c.module, set(), set())
            elif f.default is None and f.init:
                ok, why = True, "required argument (no default)"
            run.ob("I2-option-defaults-are-fresh", ok, {"class": c.name, "field": f.name, "why": why})
            if not ok:
                run.fail(Finding("I2-option-defaults-are-fresh", cq, f"{f.name}: {why}", f"{c.name}.{f.name} does not get a fresh value per instance ({why}): registrations would leak between sessions", model.loc(c.module, c.node)))
    run.floor("option dataclasses", n_opts, 4)
    # ---- I7: memoised functions hand the same object to every caller -------------------------------------
    from ..commonrules import memoised_results_are_immutable
    memoised_results_are_immutable(model, run, "I7-no-memoised-mutable-results", None, "every session, every parsed definition")
    # ---- I3/I4 ------------------------------------------------------------------------------------------
    n_fn = 0
    for mn, m in model.modules.items():
        cls_names = {n.name for n in m.tree.body if isinstance(n, ast.ClassDef)}
        for fq, construct, node, why in shared_state_writes(mn, m.tree, cls_names):
            if (fq, construct) in REVIEWED and not reviewed_form_holds(model, fq, node):
                run.ob("I3-no-shared-state-writes", False, {"function": fq, "construct": construct})
                run.fail(Finding("I3-no-shared-state-writes", fq, (construct + "|key")[:80], f"{fq.split('sansldap.')[-1]} memoises the pseudo member under a key that is not the value it was asked for "
                                 f"(`{norm(node)[:60]}`): two different values then share one member for the whole process, whichever session saw its value first", model.loc(mn, node)))
                continue
            if (fq, construct) in REVIEWED:
                run.note(f"reviewed exception: {fq}: {construct}: {REVIEWED[(fq, construct)]}")
                run.ob("I3-no-shared-state-writes", True, {"function": fq, "construct": construct, "reviewed": REVIEWED[(fq, construct)]})
                continue
            run.ob("I3-no-shared-state-writes", False, {"function": fq, "construct": construct})
            run.fail(Finding("I3-no-shared-state-writes", fq, construct[:80], f"{fq.split('sansldap.')[-1]} {why}: sessions would influence each other", model.loc(mn, node)))
        n_fn += len([n for n in ast.walk(m.tree) if isinstance(n, (ast.FunctionDef, ast.AsyncFunctionDef))])
    run.ob("I3-no-shared-state-writes", True, {"functions_scanned": n_fn})
    run.floor("functions scanned for shared-state writes", n_fn, 150)
    # ---- I5 options provenance ----------------------------------------------------------------------------
    n_args = 0
    for fq, fi in list(model.functions.items()):
        if isinstance(fi.node, ast.Lambda):
            continue
        params = set(fi.params())
        for c in walk_no_nested(fi.node):
            if not isinstance(c, ast.Call):
                continue
            q = model.resolve_name(fi.module, norm(c.func)) if isinstance(c.func, (ast.Name, ast.Attribute)) else None
            callee_params: List[str] = []
            if q in model.functions:
                callee_params = model.functions[q].params()
            elif isinstance(c.func, ast.Attribute) and c.func.attr in ("pack", "unpack", "_pack_inner", "get_value"):
                callee_params = ["<recv>", "<w>", "options"] if c.func.attr != "get_value" else ["<recv>", "options"]
            cands = []
            for k in c.keywords:
                if k.arg in ("options", "packing"):
                    cands.append(k.value)
            for a in c.args:
                if isinstance(a, (ast.Name, ast.Attribute)) and ("options" in norm(a) or "packing" in norm(a)):
                    cands.append(a)
                if isinstance(a, ast.Call) and norm(a.func).endswith("Options"):
                    cands.append(a)
            for a in cands:
                if fi.name == "__init__" and fi.cls in SESSION_CLASSES:
                    continue
                n_args += 1
                root = a
                while isinstance(root, ast.Attribute):
                    root = root.value
                ok = isinstance(root, ast.Name) and (root.id in params) and (root.id != "self" or "_packing_options" in norm(a))
                if not ok and isinstance(root, ast.Name) and root.id == "self" and fi.cls and fi.cls not in SESSION_CLASSES:
                    # a helper object that was handed the options when it was built (the constructor call is judged as a call site)
                    first = a
                    while isinstance(first, ast.Attribute) and not (isinstance(first.value, ast.Name) and first.value.id == "self"):
                        first = first.value
                    from ..srcmodel import attr_is_constructor_param
                    pn = attr_is_constructor_param(model, fi.cls, first.attr) if isinstance(first, ast.Attribute) else None
                    if pn is not None:
                        init = model.find_method(fi.cls, "__init__")
                        idx = init.params().index(pn) - 1
                        built = 0
                        ok = True
                        for gq, g in list(model.functions.items()):
                            if isinstance(g.node, ast.Lambda):
                                continue
                            for bc in walk_no_nested(g.node):
                                if isinstance(bc, ast.Call) and isinstance(bc.func, (ast.Name, ast.Attribute)) and model.resolve_name(g.module, norm(bc.func)) == fi.cls:
                                    built += 1
                                    arg = bc.args[idx] if idx < len(bc.args) else next((k.value for k in bc.keywords if k.arg == pn), None)
                                    r_ = arg
                                    while isinstance(r_, ast.Attribute):
                                        r_ = r_.value
                                    if not (isinstance(r_, ast.Name) and r_.id in g.params() and (r_.id != "self" or "_packing_options" in norm(arg))):
                                        ok = False
                        ok = ok and built > 0
                run.ob("I5-options-provenance", ok, {"function": fq.split("sansldap.")[-1], "argument": norm(a)[:60]})
                if not ok:
                    run.fail(Finding("I5-options-provenance", fq, norm(a)[:80], f"{fq.split('sansldap.')[-1]} passes `{norm(a)[:60]}` as options: not rooted at a parameter or at the session's own _packing_options (a default or global instance ignores the session's registrations)", model.loc(fi.module, c)))
        # choice lookups iterate <param>.choices
        for n in walk_no_nested(fi.node):
            if isinstance(n, ast.Attribute) and n.attr == "choices" and isinstance(n.ctx, ast.Load):
                root = n.value
                while isinstance(root, ast.Attribute):
                    root = root.value
                ok = isinstance(root, ast.Name) and root.id in params and (root.id != "self" or "_packing_options" in norm(n))
                run.ob("I5-choices-from-own-options", ok, {"function": fq.split("sansldap.")[-1], "lookup": norm(n)})
                if not ok:
                    run.fail(Finding("I5-choices-from-own-options", fq, norm(n), f"choice lookup `{norm(n)}` is not rooted at the options handed in by the session", model.loc(fi.module, n)))
    run.floor("options arguments", n_args, 30)
    registrations_only_by_register(model, run)
    options_are_read_only_while_coding(model, run)
    # ---- I6 registration -----------------------------------------------------------------------------------
    registration_guarded(model, run)


def registration_guarded(model: Model, run: Run, rule: str = "I6-registration-guarded") -> None:
    """I6: every register_* refuses a duplicate before it appends.  The append (in the method, or in a helper that is handed the
    `.choices` list) comes after a test that raises; the test is fed by a search of the *same* list that compares ids with ==;
    and the way the search result is tested fits what the search returns: an element or a bool may be tested for truth, a
    position must be compared with None (position 0 is a hit, and false)."""
    base = model.cls(f"{SESSION_MOD}.LDAPSession")
    regs = [fi for n, fi in base.methods.items() if n.startswith("register_")]
    run.floor("register_* methods", len(regs), 3)

    def binds(fn, name):
        return [a.value for a in walk_no_nested(fn.node) if isinstance(a, (ast.Assign, ast.AnnAssign)) and a.value is not None and
                any(isinstance(t_, ast.Name) and t_.id == name for t_ in (a.targets if isinstance(a, ast.Assign) else [a.target]))]

    def is_list(e, fn, lnames) -> bool:
        if isinstance(e, ast.Call) and isinstance(e.func, ast.Name) and e.func.id in ("enumerate", "iter", "list", "tuple", "reversed") and e.args:
            return is_list(e.args[0], fn, lnames)
        if isinstance(e, ast.Subscript) and isinstance(e.slice, ast.Slice):
            return is_list(e.value, fn, lnames)          # a part of the list: read as a search of it (whether a part is enough is judged separately)
        return norm(e) in lnames

    def search_kind(e, fn, lnames, depth=0):
        """'element' | 'index' | 'bool' for an expression that searches the list for an equal id; None = not such a search"""
        if depth > 3:
            return None
        if isinstance(e, ast.Call) and isinstance(e.func, ast.Name) and e.func.id == "next" and e.args and isinstance(e.args[0], ast.GeneratorExp):
            g = e.args[0]
            if len(g.generators) != 1 or not is_list(g.generators[0].iter, fn, lnames):
                return None
            if not any(isinstance(x, ast.Compare) and any(isinstance(o, ast.Eq) for o in x.ops) for c in g.generators[0].ifs for x in ast.walk(c)):
                return None
            tgt = g.generators[0].target
            enum = isinstance(g.generators[0].iter, ast.Call) and norm(g.generators[0].iter.func) == "enumerate"
            if isinstance(g.elt, ast.Constant):
                return "bool" if g.elt.value is True else None
            if isinstance(g.elt, ast.Name):
                if enum and isinstance(tgt, ast.Tuple) and len(tgt.elts) == 2 and isinstance(tgt.elts[0], ast.Name) and g.elt.id == tgt.elts[0].id:
                    return "index"
                if enum and isinstance(tgt, ast.Tuple) and len(tgt.elts) == 2 and isinstance(tgt.elts[1], ast.Name) and g.elt.id == tgt.elts[1].id:
                    return "element"
                if isinstance(tgt, ast.Name) and g.elt.id == tgt.id and not enum:
                    return "element"
            return None
        if isinstance(e, ast.Call) and isinstance(e.func, ast.Name) and e.func.id == "any" and e.args and isinstance(e.args[0], (ast.GeneratorExp, ast.ListComp)):
            g = e.args[0]
            if len(g.generators) == 1 and is_list(g.generators[0].iter, fn, lnames) and \
                    any(isinstance(x, ast.Compare) and any(isinstance(o, ast.Eq) for o in x.ops) for x in ast.walk(g)):
                return "bool"
            return None
        if isinstance(e, ast.Call) and isinstance(e.func, ast.Attribute) and e.func.attr == "index" and norm(e.func.value) in lnames:
            return "index"
        if isinstance(e, ast.Call) and isinstance(e.func, (ast.Name, ast.Attribute)):
            # a search helper that is handed the list
            callee = None
            if isinstance(e.func, ast.Name):
                q = model.resolve_name(fn.module, e.func.id)
                callee = model.functions.get(q) if q else None
            elif isinstance(e.func.value, ast.Name) and e.func.value.id in ("self", "cls") and fn.cls:
                callee = model.find_method(fn.cls, e.func.attr)
            if callee is None or isinstance(callee.node, ast.Lambda):
                return None
            ps = callee.params()
            off = 1 if callee.cls and not callee.is_staticmethod and isinstance(e.func, ast.Attribute) else 0
            sub = {ps[i + off] for i, a in enumerate(e.args) if norm(a) in lnames and i + off < len(ps)} | {k.arg for k in e.keywords if norm(k.value) in lnames}
            if not sub:
                return None
            kinds = set()
            rets = [r for r in walk_no_nested(callee.node) if isinstance(r, ast.Return)]
            for r in rets:
                if r.value is None or (isinstance(r.value, ast.Constant) and r.value.value is None):
                    continue
                v = r.value
                if isinstance(v, ast.Name):
                    bs = binds(callee, v.id)
                    loop = [f_ for f_ in walk_no_nested(callee.node) if isinstance(f_, ast.For) and is_list(f_.iter, callee, sub) and
                            any(isinstance(x, ast.Name) and x.id == v.id for x in ast.walk(f_.target))]
                    if loop:
                        enum = isinstance(loop[0].iter, ast.Call) and norm(loop[0].iter.func) == "enumerate"
                        t_ = loop[0].target
                        kinds.add("index" if enum and isinstance(t_, ast.Tuple) and isinstance(t_.elts[0], ast.Name) and t_.elts[0].id == v.id else "element")
                        continue
                    ks = {search_kind(b_, callee, sub, depth + 1) for b_ in bs if not (isinstance(b_, ast.Constant) and b_.value is None)}
                    kinds |= ks
                    continue
                kinds.add(search_kind(v, callee, sub, depth + 1) if not isinstance(v, ast.Constant) else ("bool" if isinstance(v.value, bool) else None))
            if len(kinds) == 1 and None not in kinds:
                return kinds.pop()
            return None
        return None

    for fi in regs:
        # where the append happens: in the method, or in a helper handed the list
        site_fn, lnames, app = None, set(), None
        cands = [(fi, None)]
        for c in walk_no_nested(fi.node):
            if isinstance(c, ast.Call) and any(isinstance(a, ast.Attribute) and a.attr == "choices" for a in list(c.args) + [k.value for k in c.keywords]):
                callee = None
                if isinstance(c.func, ast.Name):
                    q = model.resolve_name(fi.module, c.func.id)
                    callee = model.functions.get(q) if q else None
                elif isinstance(c.func, ast.Attribute) and isinstance(c.func.value, ast.Name) and c.func.value.id in ("self", "cls"):
                    callee = model.find_method(fi.cls, c.func.attr)
                if callee is not None and not isinstance(callee.node, ast.Lambda):
                    cands.append((callee, c))
        target_ok = True
        for fn, call in cands:
            names = set()
            if call is None:
                for a in walk_no_nested(fn.node):
                    if isinstance(a, ast.Attribute) and a.attr == "choices":
                        names.add(norm(a))
                    if isinstance(a, (ast.Assign, ast.AnnAssign)) and a.value is not None and isinstance(a.value, ast.Attribute) and a.value.attr == "choices":
                        names |= {t_.id for t_ in (a.targets if isinstance(a, ast.Assign) else [a.target]) if isinstance(t_, ast.Name)}
            else:
                ps = fn.params()
                off = 1 if fn.cls and not fn.is_staticmethod and isinstance(call.func, ast.Attribute) else 0
                names = {ps[i + off] for i, a in enumerate(call.args) if isinstance(a, ast.Attribute) and a.attr == "choices" and i + off < len(ps)} | \
                        {k.arg for k in call.keywords if isinstance(k.value, ast.Attribute) and k.value.attr == "choices"}
            apps = [x for x in walk_no_nested(fn.node) if isinstance(x, ast.Call) and isinstance(x.func, ast.Attribute) and x.func.attr in ("append", "insert", "extend") and norm(x.func.value) in names]
            if apps:
                site_fn, lnames, app = fn, names, apps[0]
                # the list must be the session's own
                srcs = [norm(a) for a in ast.walk(fi.node) if isinstance(a, ast.Attribute) and a.attr == "choices"]
                target_ok = bool(srcs) and all(t_.startswith("self._packing_options.") for t_ in srcs)
                break
        ok, why = True, ""
        if site_fn is None:
            ok, why = False, "no append to a `.choices` list found (in the method or in a helper it hands the list to)"
        elif not target_ok:
            ok, why = False, "appends to a list that is not the session's own options"
        else:
            body = [s_ for s_ in site_fn.node.body if not (isinstance(s_, ast.Expr) and isinstance(s_.value, ast.Constant))]
            idx = next((i for i, s_ in enumerate(body) if any(x is app for x in ast.walk(s_))), None)
            top_level = idx is not None and isinstance(body[idx], ast.Expr) and body[idx].value is app
            before = body[:idx] if idx is not None else []
            guards = [s_ for s_ in before if isinstance(s_, ast.If) and s_.body and isinstance(s_.body[-1], ast.Raise) and not s_.orelse]
            loops = [s_ for s_ in before if isinstance(s_, ast.For) and is_list(s_.iter, site_fn, lnames) and not s_.orelse and
                     any(isinstance(x, ast.If) and x.body and isinstance(x.body[-1], ast.Raise) and
                         any(isinstance(y, ast.Compare) and any(isinstance(o, ast.Eq) for o in y.ops) for y in ast.walk(x.test)) for x in s_.body)]
            if not top_level:
                ok, why = False, "the append is conditional"
            elif loops:
                ok = True
            elif not guards:
                ok, why = False, "the duplicate test that raises does not come before the append"
            else:
                g = guards[-1]
                t = g.test
                form = "truth"
                if isinstance(t, ast.Compare) and len(t.ops) == 1 and isinstance(t.comparators[0], ast.Constant) and t.comparators[0].value is None and isinstance(t.ops[0], ast.IsNot):
                    t, form = t.left, "notnone"
                kind = None
                if isinstance(t, ast.Name):
                    bs = [b_ for b_ in binds(site_fn, t.id) if not (isinstance(b_, ast.Constant) and b_.value is None)]
                    fl = [f_ for f_ in before if isinstance(f_, ast.For) and is_list(f_.iter, site_fn, lnames) and isinstance(f_.target, ast.Name) and f_.target.id == t.id
                          and any(isinstance(x, ast.Break) for x in ast.walk(f_))
                          and any(isinstance(y, ast.Compare) and any(isinstance(o, ast.Eq) for o in y.ops) for y in ast.walk(f_))]
                    if fl:
                        kind = "element"
                    elif len(bs) == 1:
                        kind = search_kind(bs[0], site_fn, lnames)
                else:
                    kind = search_kind(t, site_fn, lnames)
                if kind is None:
                    raise AnalysisError(f"{fi.qualname}: the duplicate test `{norm(g.test)[:60]}` is fed by a search this rule does not read")
                if kind == "index" and form == "truth":
                    ok, why = False, f"the search yields a position and is tested with `if {norm(g.test)[:30]}:` - position 0 is a hit but false, so a clash with the first registered type is accepted"
        if ok and site_fn is not None:
            # what the search looks at: the whole list, and the id of each entry against the id of the new type
            scopes = [site_fn] + [f_ for f_ in model.functions.values() if f_.module == site_fn.module and not isinstance(f_.node, ast.Lambda) and f_ is not site_fn and
                                  any(isinstance(c_, ast.Call) and isinstance(c_.func, (ast.Name, ast.Attribute)) and norm(c_.func).split(".")[-1] == f_.name for c_ in walk_no_nested(site_fn.node))]
            for sc in scopes:
                names_sc = lnames if sc is site_fn else {p_ for p_ in sc.params()}
                for x in walk_no_nested(sc.node):
                    gens = x.generators if isinstance(x, (ast.GeneratorExp, ast.ListComp)) else []
                    iters = [(g.iter, g.ifs) for g in gens] + ([(x.iter, [t_.test for t_ in ast.walk(x) if isinstance(t_, ast.If)])] if isinstance(x, ast.For) else [])
                    for it, conds in iters:
                        base = it
                        while isinstance(base, ast.Call) and isinstance(base.func, ast.Name) and base.func.id in ("enumerate", "iter", "reversed") and base.args:
                            base = base.args[0]
                        sliced = isinstance(base, ast.Subscript) and isinstance(base.slice, ast.Slice) and norm(base.value) in names_sc and \
                            (base.slice.lower is not None or base.slice.upper is not None)
                        if sliced and sc is site_fn:
                            ok, why = False, f"the duplicate search runs over `{norm(base)[:40]}`, a part of the list: a clash with an entry outside that part is accepted"
                        if norm(base) not in names_sc and not sliced:
                            continue
                        for cnd in conds:
                            for cmp_ in [y for y in ast.walk(cnd) if isinstance(y, ast.Compare) and len(y.ops) == 1 and isinstance(y.ops[0], ast.Eq)]:
                                l_, r_ = cmp_.left, cmp_.comparators[0]
                                def idexpr(e_):
                                    if isinstance(e_, ast.Attribute):
                                        return e_.attr
                                    if isinstance(e_, ast.Call) and isinstance(e_.func, ast.Name) and e_.func.id == "getattr" and len(e_.args) >= 2:
                                        return norm(e_.args[1])
                                    if isinstance(e_, ast.Call) and isinstance(e_.func, ast.Name) and len(e_.args) == 1:
                                        return "call:" + e_.func.id          # a getter applied to the entry
                                    if isinstance(e_, ast.Name):
                                        return None
                                    return "?"
                                il, ir = idexpr(l_), idexpr(r_)
                                if il is None and ir is None and sc is site_fn:
                                    ok, why = False, f"the duplicate search compares the types themselves (`{norm(cmp_)[:40]}`), not their ids: a different class that re-uses a registered id is accepted"
        run.ob(rule, ok, {"method": fi.name})
        if not ok:
            run.fail(Finding(rule, fi.qualname, why[:80], f"{fi.name}: {why}", model.loc(SESSION_MOD, fi.node)))


def reviewed_form_holds(model: Model, fq: str, node: ast.AST) -> bool:
    """the reviewed memo of LDAPResultCode._missing_ is `cls._value2member_map_.setdefault(<the value parameter>, <member>)` with
    the member's _value_ set from the same parameter: only then is the cache entry what a fresh conversion would produce"""
    fi = model.functions.get(fq)
    if fi is None or isinstance(fi.node, ast.Lambda):
        return False
    ps = fi.params()
    vparam = ps[1] if len(ps) > 1 else None
    call = node if isinstance(node, ast.Call) else None
    if call is None or vparam is None or not call.args or not (isinstance(call.args[0], ast.Name) and call.args[0].id == vparam):
        return False
    if any(isinstance(x, ast.Name) and x.id == vparam and isinstance(x.ctx, ast.Store) for x in walk_no_nested(fi.node)):
        return False
    vals = [a.value for a in walk_no_nested(fi.node) if isinstance(a, ast.Assign) and any(isinstance(t_, ast.Attribute) and t_.attr == "_value_" for t_ in a.targets)]
    return bool(vals) and all(isinstance(v, ast.Name) and v.id == vparam for v in vals)


def options_are_read_only_while_coding(model: Model, run: Run, rule: str = "I10-coding-does-not-write-its-options") -> None:
    """I10: encoding and decoding read their options: no function outside the session's constructor and `register_*` changes an
    options object it was handed (or anything reached through it).  A lookup table built into the options on first use is a
    snapshot of `choices` at that moment - a type registered afterwards is accepted by `register_*` and never seen by the
    decoder, which is exactly the unregistered session's behaviour."""
    MUT = {"append", "extend", "insert", "add", "update", "setdefault", "pop", "popitem", "clear", "remove", "discard", "sort", "reverse", "__setitem__"}
    n = 0
    for fq, fi in sorted(model.functions.items()):
        if isinstance(fi.node, ast.Lambda) or fi.name.startswith("register_") or fi.name in ("__init__", "__post_init__"):
            continue
        a = fi.node.args
        opts = {p_.arg for p_ in a.posonlyargs + a.args + a.kwonlyargs if p_.annotation is not None and norm(p_.annotation).replace("t.Optional[", "").rstrip("]").split(".")[-1].endswith("Options")}
        if not opts:
            continue
        n += 1

        def rooted(e: ast.AST) -> bool:
            while isinstance(e, (ast.Attribute, ast.Subscript)):
                e = e.value
            return isinstance(e, ast.Name) and e.id in opts
        bad = None
        for x in walk_no_nested(fi.node):
            if isinstance(x, (ast.Assign, ast.AugAssign, ast.AnnAssign, ast.Delete)):
                tgs = x.targets if isinstance(x, (ast.Assign, ast.Delete)) else [x.target]
                for t_ in tgs:
                    if isinstance(t_, (ast.Attribute, ast.Subscript)) and rooted(t_):
                        # W22 (C01) judges a counter that is put back in a finally; here any lasting write counts
                        inside_restore = isinstance(x, ast.AugAssign)
                        if not inside_restore:
                            bad = x
            elif isinstance(x, ast.Call) and isinstance(x.func, ast.Attribute) and x.func.attr in MUT and isinstance(x.func.value, (ast.Attribute, ast.Subscript)) and rooted(x.func.value):
                bad = x
            elif isinstance(x, ast.Call) and norm(x.func) in ("object.__setattr__", "setattr") and x.args and rooted(x.args[0]):
                bad = x
        run.ob(rule, bad is None, {"function": fq.split("sansldap.")[-1]})
        if bad is not None:
            run.fail(Finding(rule, fq, norm(bad)[:80], f"{fq.split('sansldap.')[-1]} writes to the options it was handed (`{norm(bad)[:60]}`): what it stores there is a copy of the registered "
                             "types as they were at that moment, so a type the session registers later is never used by the decoder", model.loc(fi.module, bad)))
    run.floor("functions taking an options object", n, 20)


def registrations_only_by_register(model: Model, run: Run, rule: str = "I9-choices-change-only-by-registration") -> None:
    """I9: the lists of known custom types (`<options>.choices`) are changed by the register_* methods and by nothing else.  A
    session that learns a type any other way decodes bytes it has no registration for - "exactly that session", and only by
    registering, is the contract."""
    MUT = {"append", "extend", "insert", "remove", "pop", "clear", "sort", "reverse", "__iadd__", "__setitem__", "__delitem__"}
    n = 0
    # helpers that are handed a `.choices` list: (callee qualname, parameter) -> the functions that hand it over
    handed: Dict[Tuple[str, str], Set[str]] = {}
    for fq, fi in sorted(model.functions.items()):
        if isinstance(fi.node, ast.Lambda):
            continue
        for c in walk_no_nested(fi.node):
            if not isinstance(c, ast.Call):
                continue
            callee = None
            if isinstance(c.func, ast.Name):
                q = model.resolve_name(fi.module, c.func.id)
                callee = model.functions.get(q) if q else None
            elif isinstance(c.func, ast.Attribute) and isinstance(c.func.value, ast.Name) and c.func.value.id in ("self", "cls") and fi.cls:
                callee = model.find_method(fi.cls, c.func.attr)
            if callee is None or isinstance(callee.node, ast.Lambda):
                continue
            ps = callee.params()
            off = 1 if callee.cls and not callee.is_staticmethod and isinstance(c.func, ast.Attribute) else 0
            for i, a in enumerate(c.args):
                if isinstance(a, ast.Attribute) and a.attr == "choices" and i + off < len(ps):
                    handed.setdefault((callee.qualname, ps[i + off]), set()).add(fq)
            for k in c.keywords:
                if isinstance(k.value, ast.Attribute) and k.value.attr == "choices" and k.arg in ps:
                    handed.setdefault((callee.qualname, k.arg), set()).add(fq)
    for fq, fi in sorted(model.functions.items()):
        if isinstance(fi.node, ast.Lambda):
            continue
        aliases = {p_ for (cq_, p_) in handed if cq_ == fq}
        via_register = bool(aliases) and all(g.rsplit(".", 1)[-1].startswith("register_") for (cq_, p_), gs in handed.items() if cq_ == fq for g in gs)
        for a in walk_no_nested(fi.node):
            if isinstance(a, (ast.Assign, ast.AnnAssign)) and a.value is not None and isinstance(a.value, ast.Attribute) and a.value.attr == "choices":
                for t_ in (a.targets if isinstance(a, ast.Assign) else [a.target]):
                    if isinstance(t_, ast.Name):
                        aliases.add(t_.id)

        def is_choices(e: ast.expr) -> bool:
            return (isinstance(e, ast.Attribute) and e.attr == "choices") or (isinstance(e, ast.Name) and e.id in aliases)
        for x in walk_no_nested(fi.node):
            hit = None
            if isinstance(x, ast.Call) and isinstance(x.func, ast.Attribute) and x.func.attr in MUT and is_choices(x.func.value):
                hit = x
            elif isinstance(x, ast.AugAssign) and is_choices(x.target):
                hit = x
            elif isinstance(x, (ast.Assign, ast.Delete)):
                for t_ in x.targets:
                    if (isinstance(t_, ast.Subscript) and is_choices(t_.value)) or (isinstance(t_, ast.Attribute) and t_.attr == "choices" and isinstance(x, ast.Assign)):
                        hit = x
            if hit is None:
                continue
            n += 1
            in_ctor = fi.name in ("__init__", "__post_init__") and isinstance(hit, ast.Assign)
            ok = fi.name.startswith("register_") or in_ctor or via_register
            run.ob(rule, ok, {"function": fq.split("sansldap.")[-1], "construct": norm(hit)[:60]})
            if not ok:
                run.fail(Finding(rule, fq, norm(hit)[:80], f"{fq.split('sansldap.')[-1]} changes a list of registered custom types (`{norm(hit)[:60]}`) outside the register_* methods: "
                                 "the session starts to decode a type nobody registered with it", model.loc(fi.module, hit)))
    run.floor("mutations of the registered-type lists", n, 1)


def parse_results_fresh(model: Model, run: Run, module: str, rule: str, what: str) -> None:
    """Round-trip properties quantify over *every* parse: a parse result that is cached (a memoised helper, a module-level
    table written by the parser) is shared between calls, so a caller editing one result changes later ones."""
    m = model.modules[module]
    class_names = {n.name for n in m.tree.body if isinstance(n, ast.ClassDef)}
    n = 0
    for fq, construct, node, why in shared_state_writes(module, m.tree, class_names):
        if (fq, construct) in REVIEWED:
            continue
        n += 1
        run.ob(rule, False, {"function": fq, "construct": construct})
        run.fail(Finding(rule, fq, construct[:80], f"{fq.split('sansldap.')[-1]} {why}: {what} would depend on earlier calls", model.loc(module, node)))
    for fq, fi in sorted(model.functions.items()):
        if fi.module != module or isinstance(fi.node, ast.Lambda):
            continue
        for d in fi.node.decorator_list:
            dn = norm(d.func if isinstance(d, ast.Call) else d).split(".")[-1]
            if dn in ("lru_cache", "cache", "cached_property"):
                ra = norm(fi.node.returns) if fi.node.returns is not None else ""
                ok = ra in ("str", "bytes", "int", "bool", "t.Optional[str]", "t.Optional[int]", "t.Optional[bytes]")
                run.ob(rule, ok, {"function": fq, "decorator": dn, "returns": ra})
                if not ok:
                    run.fail(Finding(rule, fq, f"@{dn} -> {ra or '?'}", f"{fi.name} is memoised with @{dn} and returns `{ra or 'an unannotated value'}`: "
                                     f"parsed values share one mutable object, so {what} stops holding once a caller edits a result", model.loc(module, fi.node)))
    # a module-level list / dict / set handed out as (part of) a result is one object for every caller
    shared = {}
    for nm, sts in m.globals_.items():
        vals = [getattr(s_, "value", None) for s_ in sts]
        if len(vals) == 1 and vals[0] is not None and (isinstance(vals[0], (ast.List, ast.Dict, ast.Set, ast.ListComp, ast.DictComp, ast.SetComp)) or
                                                        (isinstance(vals[0], ast.Call) and norm(vals[0].func) in ("list", "dict", "set", "bytearray", "collections.OrderedDict", "collections.defaultdict"))):
            shared[nm] = sts[0]
    for fq, fi in sorted(model.functions.items()):
        if fi.module != module or isinstance(fi.node, ast.Lambda) or not shared:
            continue
        stored_ = {x.id for x in ast.walk(fi.node) if isinstance(x, ast.Name) and isinstance(x.ctx, ast.Store)} | set(fi.params())
        for r_ in walk_no_nested(fi.node):
            if not (isinstance(r_, ast.Return) and r_.value is not None):
                continue
            outs = [r_.value] + ([r_.value.body, r_.value.orelse] if isinstance(r_.value, ast.IfExp) else []) + \
                   (list(r_.value.elts) if isinstance(r_.value, ast.Tuple) else []) + \
                   ([k.value for k in r_.value.keywords] + list(r_.value.args) if isinstance(r_.value, ast.Call) else [])
            for o in outs:
                if isinstance(o, ast.BoolOp):
                    outs.extend(o.values)
            for o in outs:
                if isinstance(o, ast.Name) and o.id in shared and o.id not in stored_:
                    n += 1
                    run.ob(rule, False, {"function": fq, "returns": o.id})
                    run.fail(Finding(rule, fq, f"return {o.id}", f"{fq.split('sansldap.')[-1]} hands out the module-level `{o.id}` ({norm(shared[o.id])[:40]}): every result that takes this path holds "
                                     f"the same object, so a caller that edits one result edits them all and {what} stops holding for the next parse", model.loc(module, r_)))
    run.ob(rule, True, {"module": module, "shared_state_constructs": n})
