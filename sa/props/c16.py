"""C16 - schema definitions survive conversion to text and back (necessary conditions)."""
from __future__ import annotations

import ast
import re._constants as RC
import re._parser as RP
from typing import Dict, List, Optional, Set, Tuple

from ..fold import Folder, Unfoldable
from ..report import Finding, Run
from ..rx import rfc
from ..rx.lang import Lang, difference_witness
from ..rx.nfa import CharSet, build
from ..rx.sites import find_sites
from ..srcmodel import AnalysisError, FuncInfo, Model, norm, walk_no_nested

SCHEMA = "sansldap.schema"
CLASSES = ["ObjectClassDescription", "AttributeTypeDescription", "DITContentRuleDescription"]


class NotLang:
    """Complement of a Lang (same automaton, acceptance inverted)."""

    def __init__(self, inner):
        self.inner = inner
        self.nfa = inner.nfa

    def start(self):
        return self.inner.start()

    def step(self, st, c):
        return self.inner.step(st, c)

    def accepts(self, st) -> bool:
        return not self.inner.accepts(st)

    def dead(self, st) -> bool:
        return False


class AfterLang:
    """Left quotient: the strings w such that prefix.w is in the language."""

    def __init__(self, inner, prefix):
        self.inner = inner
        self.nfa = inner.nfa
        self.prefix = list(prefix)

    def start(self):
        st = self.inner.start()
        for c in self.prefix:
            st = self.inner.step(st, c)
        return st

    def step(self, st, c):
        return self.inner.step(st, c)

    def accepts(self, st) -> bool:
        return self.inner.accepts(st)

    def dead(self, st) -> bool:
        return self.inner.dead(st)


def writer_escape(model: Model):
    """The character class the writer escapes and its replacement format, from _encode_qdstring.  Returns (site, class escaped in
    every context, [(class, negated, look-ahead items)] for alternatives escaped only in some contexts)."""
    import re._parser as P
    import re._constants as RC
    from ..anchors import schema as schema_anchors
    enc = schema_anchors(model).encoder
    sites = [s for s in find_sites(model, (SCHEMA,)) if s.module == SCHEMA and s.api == "sub" and s.func == enc.qualname]
    if len(sites) != 1:
        raise AnalysisError(f"expected one re.sub in the qdstring encoder, found {len(sites)}")
    s = sites[0]
    try:
        tree = P.parse(s.pattern, s.flags)
    except Exception as e:
        raise AnalysisError(f"qdstring escape pattern does not parse: {e}")
    items = list(tree)
    while len(items) == 1 and items[0][0] is RC.SUBPATTERN and not items[0][1][1] and not items[0][1][2]:
        items = list(items[0][1][3])
    alts = [list(a) for a in items[0][1][1]] if len(items) == 1 and items[0][0] is RC.BRANCH else [items]
    always = CharSet([])
    cond = []
    for alt in alts:
        if not alt or alt[0][0] not in (RC.LITERAL, RC.NOT_LITERAL, RC.IN, RC.ANY):
            raise AnalysisError("the qdstring escape pattern is not made of single character classes")
        one = build(s.pattern, s.flags, "match", items_override=[alt[0]])
        if len(one.positions) != 1 or one.loops:
            raise AnalysisError("the qdstring escape pattern is not made of single character classes")
        cs = one.positions[0].cs
        rest = alt[1:]
        if not rest:
            always = always.union(cs)
        elif len(rest) == 1 and rest[0][0] in (RC.ASSERT, RC.ASSERT_NOT) and rest[0][1][0] == 1:
            cond.append((cs, rest[0][0] is RC.ASSERT_NOT, list(rest[0][1][1]), s))
        else:
            raise AnalysisError("the qdstring escape pattern is not made of single character classes (with an optional look-ahead)")
    return s, always, cond


def conditional_escapes(model: Model, run: Run, wsite, always, cond, reader_site) -> None:
    """H18: a character that must not appear bare (the quote, the backslash) may be left bare in some contexts only if, in
    those contexts, the reader cannot take it for anything else: the quote never; the backslash only where what follows cannot
    complete one of the reader's escapes.  `ESC(?!27|5[Cc])` leaves the backslash bare exactly in front of 27 / 5c - the one
    place where the reader turns it into another character."""
    must = CharSet([(0x27, 0x27), (0x5C, 0x5C)])
    for cs, neg, items, s in cond:
        for lo, hi in cs.intersect(must).iv:
            for c in range(lo, hi + 1):
                if c in always:
                    continue
                ahead = Lang(build(s.pattern, s.flags, "match", items_override=items))          # L(A).Sigma*
                bare = ahead if neg else NotLang(ahead)
                if c == 0x27:
                    w = difference_witness(bare, NotLang(Lang(build(".*" if isinstance(s.pattern, str) else b".*", 16, "match"))))
                    why = "a bare quote ends the quoted string"
                else:
                    if reader_site is None:
                        raise AnalysisError("conditional escape of the backslash, but the reader does not decode with one substitution: not decided")
                    reacts = AfterLang(Lang(build(reader_site.pattern, reader_site.flags, "match")), [c])
                    w = difference_witness(bare, NotLang(reacts))
                    why = "the reader decodes that as an escape"
                shown = "".join(chr(x) if 0x20 <= x < 0x7F else f"\\x{x:02x}" for x in (w or []))
                may_escape = always
                for cs2, _n, _i, _s in cond:
                    may_escape = may_escape.union(cs2)
                if w is not None and any(x in may_escape for x in w):
                    raise AnalysisError(f"conditional escape of {chr(c)!r}: the context {shown!r} is itself rewritten by the escaper: not decided")
                run.ob("H18-bare-special-characters-are-not-read-as-escapes", w is None, {"char": chr(c), "left_bare_in_front_of": shown if w is not None else None})
                if w is not None:
                    run.fail(Finding("H18-bare-special-characters-are-not-read-as-escapes", wsite.func, f"char={chr(c)!r} context={shown!r}",
                                     f"the writer leaves {chr(c)!r} unescaped when it is followed by {shown!r}, and {why}: the text comes back as a different string",
                                     model.loc(SCHEMA, wsite.node)))


def callback_format(model: Model, fi: FuncInfo, cb: ast.expr) -> Optional[Tuple[str, str]]:
    """(prefix, format-spec) of an escaping callback, written as  f"<prefix>{ord(m.group(0)):<spec>}"  (optionally .encode()),
    "<prefix>%<spec>" % ord(m.group(0)),  b"<prefix>%<spec>" % m.group(0)[0]  or  "<prefix>{:<spec>}".format(ord(m.group(0)))."""
    if isinstance(cb, ast.Lambda):
        if len(cb.args.args) != 1:
            return None
        mparam = cb.args.args[0].arg
        v = cb.body
    else:
        if not isinstance(cb, ast.Name):
            return None
        node = None
        for n in ast.walk(fi.node):
            if isinstance(n, ast.FunctionDef) and n.name == cb.id:
                node = n
        if node is None:
            q = model.resolve_name(fi.module, cb.id)
            f2 = model.functions.get(q) if q else None
            node = f2.node if f2 is not None and isinstance(f2.node, ast.FunctionDef) else None
        if node is None or not node.args.args:
            return None
        mparam = node.args.args[0].arg
        rets = [r for r in ast.walk(node) if isinstance(r, ast.Return)]
        if len(rets) != 1:
            return None
        v = rets[0].value
    if isinstance(v, ast.Call) and isinstance(v.func, ast.Attribute) and v.func.attr == "encode":
        v = v.func.value

    def is_ord_of_match(e: ast.expr) -> bool:
        """ord(m.group(0)) / ord(m.group()) / m.group(0)[0] / m[0][0]  (for a bytes subject the element is the code)"""
        def is_group0(x: ast.expr) -> bool:
            if isinstance(x, ast.Call) and isinstance(x.func, ast.Attribute) and x.func.attr == "group" and norm(x.func.value) == mparam:
                return not x.args or (len(x.args) == 1 and isinstance(x.args[0], ast.Constant) and x.args[0].value == 0)
            return isinstance(x, ast.Subscript) and norm(x.value) == mparam and isinstance(x.slice, ast.Constant) and x.slice.value == 0
        if isinstance(e, ast.Call) and isinstance(e.func, ast.Name) and e.func.id == "ord" and len(e.args) == 1:
            return is_group0(e.args[0])
        return isinstance(e, ast.Subscript) and isinstance(e.slice, ast.Constant) and e.slice.value == 0 and is_group0(e.value)

    def text(c) -> Optional[str]:
        if isinstance(c, ast.Constant) and isinstance(c.value, (str, bytes)):
            return c.value if isinstance(c.value, str) else c.value.decode("latin-1")
        return None
    if isinstance(v, ast.JoinedStr) and len(v.values) == 2 and isinstance(v.values[0], ast.Constant) and isinstance(v.values[1], ast.FormattedValue):
        fv = v.values[1]
        spec = fv.format_spec.values[0].value if fv.format_spec is not None and fv.format_spec.values and isinstance(fv.format_spec.values[0], ast.Constant) else ""
        if is_ord_of_match(fv.value):
            return v.values[0].value, spec
        return None
    if isinstance(v, ast.BinOp) and isinstance(v.op, ast.Mod) and text(v.left) is not None:
        t = text(v.left)
        arg = v.right.elts[0] if isinstance(v.right, ast.Tuple) and len(v.right.elts) == 1 else v.right
        if t.count("%") == 1 and is_ord_of_match(arg):
            pre, spec = t.split("%")
            return pre, spec
        return None
    if isinstance(v, ast.Call) and isinstance(v.func, ast.Attribute) and v.func.attr == "format" and text(v.func.value) is not None and len(v.args) == 1 and not v.keywords:
        t = text(v.func.value)
        m = __import__("re").fullmatch(r"([^{}]*)\{(?:0)?:([^{}]*)\}", t)
        if m and is_ord_of_match(v.args[0]):
            return m.group(1), m.group(2)
    return None


def unescape_single_pass(model: Model, run: Run) -> None:
    """U1: the qdstring un-escaper decodes all escapes in one simultaneous substitution. A chain of
    str.replace calls is order dependent as soon as one replacement's output can start another's input."""
    from ..anchors import schema as schema_anchors
    fi = schema_anchors(model).decoder
    subs = [s for s in find_sites(model, (SCHEMA,)) if s.func == fi.qualname and s.api == "sub"]
    chains = []
    pairs = []          # (search, replacement, node) in application order
    loops = {}
    for f in walk_no_nested(fi.node):
        if isinstance(f, ast.For) and isinstance(f.target, ast.Tuple) and len(f.target.elts) == 2 and all(isinstance(e, ast.Name) for e in f.target.elts) \
                and isinstance(f.iter, (ast.Tuple, ast.List)):
            items = []
            for it in f.iter.elts:
                if isinstance(it, (ast.Tuple, ast.List)) and len(it.elts) == 2 and all(isinstance(x, ast.Constant) and isinstance(x.value, str) for x in it.elts):
                    items.append((it.elts[0].value, it.elts[1].value))
            loops[(f.target.elts[0].id, f.target.elts[1].id)] = (f, items)
    calls = [n for n in walk_no_nested(fi.node) if isinstance(n, ast.Call) and isinstance(n.func, ast.Attribute) and n.func.attr == "replace" and len(n.args) >= 2]
    # innermost call of a chain is applied first; later statements after earlier ones
    def depth(c):
        d = 0
        v = c.func.value
        while isinstance(v, ast.Call) and isinstance(v.func, ast.Attribute):
            d += 1
            v = v.func.value
        return d
    for c in sorted(calls, key=lambda c: (c.lineno, depth(c))):
        chains.append(c)
        a0, a1 = c.args[0], c.args[1]
        if isinstance(a0, ast.Constant) and isinstance(a1, ast.Constant) and isinstance(a0.value, str) and isinstance(a1.value, str):
            pairs.append((a0.value, a1.value, c))
        elif isinstance(a0, ast.Name) and isinstance(a1, ast.Name) and (a0.id, a1.id) in loops:
            for x, y in loops[(a0.id, a1.id)][1]:
                pairs.append((x, y, c))
    if chains:
        bad = None
        for i, (a1, b1, c1) in enumerate(pairs):
            for j, (a2, b2, c2) in enumerate(pairs):
                if j <= i:
                    continue
                # the text b1 just produced, followed by what comes next, can form a2 when a suffix of b1 is a proper prefix of a2
                for k in range(1, min(len(b1), len(a2) - 1) + 1):
                    if b1.endswith(a2[:k]):
                        bad = (a1, b1, a2)
        ok = bad is None and bool(pairs)
        run.ob("U1-unescape-single-pass", ok, {"replace_sequence": [(a, b) for a, b, _ in pairs]})
        if not ok:
            if bad is None:
                run.fail(Finding("U1-unescape-single-pass", fi.qualname, "replace with non-constant arguments", "escapes are decoded by str.replace calls whose arguments are not constants: order dependence cannot be excluded", model.loc(SCHEMA, chains[0])))
            else:
                run.fail(Finding("U1-unescape-single-pass", fi.qualname, f"replace-sequence {[(a, b) for a, b, _ in pairs]}",
                                 f"escapes are decoded by successive str.replace calls: the {bad[1]!r} produced for {bad[0]!r} can combine with the following text into {bad[2]!r} "
                                 "and be decoded a second time (e.g. an escaped backslash followed by the digits of another escape)", model.loc(SCHEMA, chains[0])))
        return
    if not subs:
        # a hand-written scanner (`idx = value.find("\\", pos)` ... pieces appended to a list): single pass by construction as long as
        # the text being searched is the ORIGINAL text - nothing inside the loop assigns to it (decoded output fed back into the scan
        # is what decodes twice).  Whether the scan ends is C18's question (E2).
        loops_ = [x for x in walk_no_nested(fi.node) if isinstance(x, (ast.While, ast.For))]
        scanned = {c.func.value.id for l_ in loops_ for c in ast.walk(l_) if isinstance(c, ast.Call) and isinstance(c.func, ast.Attribute) and
                   c.func.attr in ("find", "index", "startswith") and isinstance(c.func.value, ast.Name)}
        scanned |= {x.value.id for l_ in loops_ for x in ast.walk(l_) if isinstance(x, ast.Subscript) and isinstance(x.value, ast.Name) and isinstance(x.ctx, ast.Load)}
        if not loops_ or not scanned:
            raise AnalysisError(f"{fi.qualname}: no regex substitution, no str.replace and no scanning loop: the un-escaper is not found")
        fed_back = sorted({t_.id for l_ in loops_ for x in ast.walk(l_) if isinstance(x, (ast.Assign, ast.AugAssign, ast.AnnAssign))
                           for t_ in (x.targets if isinstance(x, ast.Assign) else [x.target]) if isinstance(t_, ast.Name) and t_.id in scanned and
                           not (isinstance(x, ast.Assign) and isinstance(x.value, ast.Name))})
        fed_back = [v for v in fed_back if any(isinstance(x, (ast.Assign, ast.AugAssign)) and any(isinstance(t_, ast.Name) and t_.id == v for t_ in (x.targets if isinstance(x, ast.Assign) else [x.target]))
                                               and not isinstance(getattr(x, "value", None), (ast.Constant,)) and
                                               any(isinstance(y, (ast.BinOp, ast.JoinedStr, ast.Call)) for y in ast.walk(x.value))
                                               for l_ in loops_ for x in ast.walk(l_))]
        # positions (ints) are scanned-by-subscript false friends: only names that are searched with find/index/startswith or sliced count as text
        texts = {c.func.value.id for l_ in loops_ for c in ast.walk(l_) if isinstance(c, ast.Call) and isinstance(c.func, ast.Attribute) and
                 c.func.attr in ("find", "index", "startswith") and isinstance(c.func.value, ast.Name)}
        fed_back = [v for v in fed_back if v in texts]
        ok = not fed_back
        run.ob("U1-unescape-single-pass", ok, {"scanner": "hand-written loop", "searched": sorted(texts), "reassigned_in_loop": fed_back})
        if not ok:
            run.fail(Finding("U1-unescape-single-pass", fi.qualname, f"scan text reassigned: {fed_back}", f"the text searched for escapes (`{fed_back[0]}`) is rebuilt inside the scanning loop: "
                             "what one step decoded is searched again by the next (an escaped backslash followed by the digits of another escape is decoded twice)", model.loc(SCHEMA, fi.node)))
        return
    ok = len(subs) == 1
    run.ob("U1-unescape-single-pass", ok, {"substitutions": len(subs)})
    if not ok:
        run.fail(Finding("U1-unescape-single-pass", fi.qualname, f"{len(subs)} substitutions", "the qdstring un-escaper is not a single regex substitution", model.loc(SCHEMA, fi.node)))


def defaults_are_what_the_parser_stores(model: Model, run: Run, rule: str = "H22-defaults-are-what-the-parser-stores") -> None:
    """H22: a definition built by hand with a clause left at its default equals the definition parsed from its text: for the
    collection-valued fields that means the default and what from_string stores for an absent clause are the same *kind* of
    collection (`() != []`: a tuple default next to a parser that builds lists makes every hand-built definition with an absent
    clause unequal to its own re-parsed text)."""
    def kinds_of(e: ast.expr, fi, depth: int = 0) -> Set[str]:
        out: Set[str] = set()
        if isinstance(e, (ast.List, ast.ListComp)):
            out.add("list")
        elif isinstance(e, ast.Tuple):
            out.add("tuple")
        elif isinstance(e, (ast.Dict, ast.DictComp)):
            out.add("dict")
        elif isinstance(e, ast.IfExp):
            out |= kinds_of(e.body, fi, depth) | kinds_of(e.orelse, fi, depth)
        elif isinstance(e, ast.BoolOp):
            for v in e.values:
                out |= kinds_of(v, fi, depth)
        elif isinstance(e, ast.Call) and isinstance(e.func, ast.Name) and e.func.id in ("list", "tuple", "dict", "sorted"):
            out.add("list" if e.func.id == "sorted" else e.func.id)
        elif isinstance(e, ast.Call) and isinstance(e.func, ast.Name) and depth < 2:
            q = model.resolve_name(SCHEMA, e.func.id)
            g = model.functions.get(q) if q else None
            if g is not None and not isinstance(g.node, ast.Lambda):
                binds = {}
                for a in walk_no_nested(g.node):
                    if isinstance(a, (ast.Assign, ast.AnnAssign)) and a.value is not None:
                        for t_ in (a.targets if isinstance(a, ast.Assign) else [a.target]):
                            if isinstance(t_, ast.Name):
                                binds.setdefault(t_.id, []).append(a.value)
                for r in walk_no_nested(g.node):
                    if isinstance(r, ast.Return) and r.value is not None:
                        if isinstance(r.value, ast.Name):
                            for b in binds.get(r.value.id, []):
                                out |= kinds_of(b, g, depth + 1)
                        else:
                            out |= kinds_of(r.value, g, depth + 1)
        return out
    n = 0
    for cname in CLASSES:
        q = f"{SCHEMA}.{cname}"
        fs = model.find_method(q, "from_string")
        if fs is None:
            continue
        ctor_kw = {}
        for c in ast.walk(fs.node):
            if isinstance(c, ast.Call) and isinstance(c.func, ast.Name) and c.func.id == cname:
                for k in c.keywords:
                    if k.arg:
                        ctor_kw[k.arg] = k.value
        for f in model.dataclass_fields(q):
            dk: Set[str] = set()
            if f.default is not None:
                dk = kinds_of(f.default, fs)
            elif f.default_factory is not None:
                dk = {norm(f.default_factory)} & {"list", "tuple", "dict"}
            pk = kinds_of(ctor_kw[f.name], fs) if f.name in ctor_kw else set()
            if not dk or not pk:
                continue
            n += 1
            ok = dk <= pk
            run.ob(rule, ok, {"class": cname, "field": f.name, "default": sorted(dk), "parsed": sorted(pk)})
            if not ok:
                run.fail(Finding(rule, q, f"{f.name}: default {sorted(dk)} vs parsed {sorted(pk)}",
                                 f"{cname}.{f.name} defaults to a {'/'.join(sorted(dk))} while from_string stores a {'/'.join(sorted(pk))}: a definition built with the clause left out "
                                 "writes the same text as its parsed twin and does not equal it", model.loc(model.classes[q].module, model.classes[q].node)))
    run.floor("collection-valued schema fields with a default", n, 8)


def check(model: Model, run: Run) -> None:
    run.explanation = ("necessary conditions of the text round trip, decided on constants recovered from the source: (1) escape agreement - every character the writer's "
                       "class escapes maps (by the callback's format) to an escape the RFC grammar and the reader's un-escape pattern know, and every character it "
                       "does not escape is a raw dstring character; (2) the un-escaper is one simultaneous pass that decodes exactly those escapes back; (3) the "
                       "keyword order each __str__ can emit is a path through the description pattern (inclusion of a generated skeleton language); (4) every dataclass "
                       "field is written by __str__ and assigned in from_string. Equality of the whole definition after the round trip (post-regex extraction) is NOT decided")
    folder = Folder(model)
    from ..commonrules import values_compare_by_their_fields
    values_compare_by_their_fields(model, run, "H21-definitions-compare-by-their-fields", [f"{SCHEMA}.{c}" for c in CLASSES], "a definition no longer equals its own re-parsed text form")
    from ..commonrules import no_memoised_views_of_fields, memoised_results_are_immutable
    no_memoised_views_of_fields(model, run, "H19-text-is-computed-when-asked", [f"{SCHEMA}.{c}" for c in CLASSES],
                                "str() keeps giving the first text after a list or the extensions of the definition were changed in place, and that text no longer parses back to the definition")
    memoised_results_are_immutable(model, run, "H20-no-memoised-mutable-results", [SCHEMA], "a list or dict one parsed definition received is the one the next receives")
    # the un-escaper's single pass is judged first: it does not depend on how the writer escapes
    unescape_single_pass(model, run)
    # ---- (1) escape agreement -----------------------------------------------------------
    wsite, wclass, wcond = writer_escape(model)
    wfi = model.functions[wsite.func]
    fmt = callback_format(model, wfi, wsite.callback)
    if fmt is None:
        # the callback is not one of the forms read here (f-string / % / str.format of ord(m.group(0))): a precomputed table or a helper.
        # Nothing is known about what it writes - that is not a finding about the escapes
        raise AnalysisError(f"{wsite.func}: the escaping callback `{norm(wsite.callback)[:40]}` is not written as a format of ord(<match>): the escapes it produces are not read")
    ok = fmt[0] == "\\" and fmt[1] in ("02x", "02X")
    run.ob("H1-escape-format", ok, {"format": fmt})
    if not ok:
        run.fail(Finding("H1-escape-format", wsite.func, f"format={fmt}", "the qdstring escape is not written as backslash + two hex digits", model.loc(SCHEMA, wsite.node)))
    # reader's un-escape pattern
    from ..anchors import schema as schema_anchors
    dec = schema_anchors(model).decoder
    rsites = [s for s in find_sites(model, (SCHEMA,)) if s.func == dec.qualname and s.api == "sub"]
    reader_lang = None
    if len(rsites) == 1:
        reader_lang = Lang(build(rsites[0].pattern, rsites[0].flags, "fullmatch"))
    conditional_escapes(model, run, wsite, wclass, wcond, rsites[0] if len(rsites) == 1 else None)
    for cs_, _neg, _items, _s in wcond:
        # for the rules below a conditionally escaped character is both: possibly escaped (H2) and - where H18 allows it - bare
        wclass = wclass.union(cs_)
    dstring = Lang(build(rfc.DSTRING, 0, "fullmatch"))
    raw_ok = CharSet([(0x27, 0x27), (0x5C, 0x5C)]).complement(0x10FFFF)      # RFC: any code point except ' and \
    n_chars = 0
    for lo, hi in wclass.iv:
        for c in range(lo, hi + 1):
            n_chars += 1
            esc = f"\\{c:{fmt[1]}}" if fmt else ""
            in_grammar = bool(esc) and difference_witness(Lang(build("".join("[%s]" % ("\\\\" if ch == "\\" else ch) for ch in esc), 0, "fullmatch")), dstring) is None
            in_reader = reader_lang is not None and bool(esc) and difference_witness(Lang(build("".join("[%s]" % ("\\\\" if ch == "\\" else ch) for ch in esc), 0, "fullmatch")), reader_lang) is None
            if reader_lang is None:
                in_reader = True      # the reader does not use one regex substitution: decided by U1 / not decided
            ok = in_grammar and in_reader
            run.ob("H2-escaped-characters-are-known-escapes", ok, {"char": chr(c), "escape": esc, "in_rfc_dstring": in_grammar, "decoded_by_reader": in_reader})
            if not ok:
                run.fail(Finding("H2-escaped-characters-are-known-escapes", wsite.func, f"char={chr(c)!r} escape={esc}",
                                 f"the writer escapes {chr(c)!r} as {esc!r}, which is {'not an RFC 4512 dstring escape' if not in_grammar else 'not decoded by the reader'}: "
                                 "from_string rejects or misreads the library's own output", model.loc(SCHEMA, wsite.node)))
            if n_chars > 64:
                raise AnalysisError("writer escape class unexpectedly large")
    unescaped = wclass.complement(0x10FFFF)
    stray = unescaped.intersect(raw_ok.complement(0x10FFFF))
    ok = not stray
    run.ob("H3-unescaped-characters-are-raw", ok, {"unescaped_but_not_raw": repr(stray)})
    if not ok:
        run.fail(Finding("H3-unescaped-characters-are-raw", wsite.func, f"stray={stray!r}", f"the writer leaves {stray!r} unescaped although a dstring cannot contain it raw", model.loc(SCHEMA, wsite.node)))
    # the reader decodes exactly the two RFC escapes (either case for 5C)
    if reader_lang is not None:
        want = Lang(build(r"\\5[Cc]|\\27", 0, "fullmatch"))
        w1 = difference_witness(want, reader_lang)
        w2 = difference_witness(reader_lang, want)
        ok = w1 is None       # decoding further escapes is harmless for the round trip: the writer never emits them
        run.ob("H4-reader-escape-language", ok, {"missing": w1, "extra": w2})
        if not ok:
            run.fail(Finding("H4-reader-escape-language", dec.qualname, f"missing={w1} extra={w2}", "the un-escape pattern does not decode exactly \\27 and \\5c/\\5C", model.loc(SCHEMA, rsites[0].node)))
    # H10: everything the writer can emit for a non-empty text is a qdstring of the library's own grammar fragment
    try:
        frag = folder.fold_global(SCHEMA, "QDSTRING")
    except Unfoldable as ex:
        raise AnalysisError(f"schema.QDSTRING does not fold to a constant: {ex}")
    if fmt and isinstance(frag, str):
        import re as _re
        esc_chars = [c for lo, hi in wclass.iv for c in range(lo, hi + 1)]
        cls_txt = "".join("\\x%02x" % c if c < 256 else "\\u%04x" % c for c in esc_chars)
        alts = ["[^%s]" % cls_txt] + ["".join("\\x%02x" % ord(ch) for ch in f"\\{c:{fmt[1]}}") for c in esc_chars]
        wlang = Lang(build("'(?:%s)+'" % "|".join(alts), 0, "fullmatch"))
        flags = _re.VERBOSE if any(s_.flags & _re.VERBOSE for s_ in find_sites(model, (SCHEMA,)) if s_.module == SCHEMA) else 0
        rlang = Lang(build(frag, flags, "fullmatch"))
        w = difference_witness(wlang, rlang)
        shown = "".join(chr(c) if 0x20 <= c < 0x7F else f"\\u{c:04x}" if c <= 0xFFFF else f"\\U{c:08x}" for c in w) if w else None
        run.ob("H10-writer-output-is-a-qdstring", w is None, {"witness": shown})
        if w is not None:
            run.fail(Finding("H10-writer-output-is-a-qdstring", f"{SCHEMA}.QDSTRING", f"witness:{shown}",
                             f"the serialiser can emit {shown!r} for a description/extension text, which the library's own QDSTRING fragment does not match: from_string rejects str()'s output",
                             model.loc(SCHEMA, wsite.node)))
    int_presence_tests(model, run)
    defaults_are_what_the_parser_stores(model, run)
    parsed_numbers_kept(model, run)
    decoder_strips_only_the_quotes(model, run)
    presence_tests_guard_their_own_field(model, run)
    serialisers_are_total(model, run)
    matched_text_is_the_input(model, run, "H11-definition-text-matched-as-given")
    from .c17 import extension_cut_positions
    extension_cut_positions(model, run, "H9-no-delimiter-search-across-quoted-values")
    from .c19 import parse_results_fresh
    parse_results_fresh(model, run, "sansldap.schema", "H7-parse-results-are-fresh", "from_string(str(x)) == x")

    from .c17 import extension_names_kept_as_written
    extension_names_kept_as_written(model, run, "H17-extension-names-kept-as-written")
    from .c17 import hooks_store_fields_as_given
    hooks_store_fields_as_given(model, run, [f"{SCHEMA}.{c}" for c in CLASSES], "H12-fields-held-as-given",
                                "a definition built from parsed text is changed again on construction, so text -> object -> text -> object is not the identity the round trip needs")
    # ---- (3) keyword skeleton of __str__ is a sentence of the pattern ------------------
    for cname in CLASSES:
        keyword_skeleton(model, run, folder, cname)
    # ---- (4) field coverage ---------------------------------------------------------------
    for cname in CLASSES:
        q = f"{SCHEMA}.{cname}"
        c = model.cls(q)
        fields = [f.name for f in model.dataclass_fields(q)]
        sfi = model.find_method(q, "__str__")
        ffi = model.find_method(q, "from_string")
        if sfi is None or ffi is None:
            raise AnalysisError(f"{q}: __str__/from_string missing")
        read = {n.attr for n in ast.walk(sfi.node) if isinstance(n, ast.Attribute) and isinstance(n.value, ast.Name) and n.value.id == "self"}
        # formatting helpers that are handed the object itself read its fields through their own parameter
        for n in ast.walk(sfi.node):
            if isinstance(n, ast.Call) and isinstance(n.func, ast.Name) and any(isinstance(a, ast.Name) and a.id == "self" for a in n.args):
                hq = model.resolve_name(SCHEMA, n.func.id)
                hf = model.functions.get(hq) if hq else None
                if hf is not None and hf.cls is None and not isinstance(hf.node, ast.Lambda):
                    for i, a in enumerate(n.args):
                        if isinstance(a, ast.Name) and a.id == "self" and i < len(hf.params()):
                            pn = hf.params()[i]
                            read |= {x.attr for x in ast.walk(hf.node) if isinstance(x, ast.Attribute) and isinstance(x.value, ast.Name) and x.value.id == pn}
        # formatting methods of the class (or of a mixin) called on self, transitively
        seen_m = {sfi.qualname}
        todo_m = [sfi]
        while todo_m:
            cur = todo_m.pop()
            for n in ast.walk(cur.node):
                if isinstance(n, ast.Attribute) and isinstance(n.value, ast.Name) and n.value.id == "self" and isinstance(n.ctx, ast.Load):
                    hm = model.find_method(q, n.attr)
                    if hm is not None and hm.qualname not in seen_m and not isinstance(hm.node, ast.Lambda):
                        seen_m.add(hm.qualname)
                        todo_m.append(hm)
                        read |= {x.attr for x in ast.walk(hm.node) if isinstance(x, ast.Attribute) and isinstance(x.value, ast.Name) and x.value.id == "self"}
        ctor = [n for n in ast.walk(ffi.node) if isinstance(n, ast.Call) and norm(n.func) == cname]
        assigned = {k.arg for n in ctor for k in n.keywords}
        for f in fields:
            ok = f in read and f in assigned
            run.ob("H6-field-coverage", ok, {"class": cname, "field": f, "written": f in read, "parsed": f in assigned})
            if not ok:
                run.fail(Finding("H6-field-coverage", q, f"field={f}|written={f in read}|parsed={f in assigned}",
                                 f"field `{f}` is {'not written by __str__' if f not in read else 'not assigned by from_string'}: it cannot survive the round trip", model.loc(SCHEMA, c.node)))


def keyword_skeleton(model: Model, run: Run, folder: Folder, cname: str) -> None:
    """Every upper-case keyword literal __str__ appends, in source order, each followed by a generic value,
    must be accepted by the description pattern (as optional elements in that order)."""
    q = f"{SCHEMA}.{cname}"
    sfi = model.find_method(q, "__str__")
    used = [s for s in find_sites(model, (SCHEMA,)) if s.func == f"{q}.from_string" and s.api == "match" and s.name != "NOIDLEN_MATCH"]
    if len(used) != 1:
        raise AnalysisError(f"{q}: description pattern not found")
    code = Lang(build(used[0].pattern, used[0].flags, "match"))
    kws: List[Tuple[str, str]] = []

    def literal_stream(fi_, depth: int = 0, subst=None):
        """string literals / f-strings in source order, with the literals of a module-level helper spliced in where it is called;
        a helper parameter that the call binds to a string literal (`_encode_flag("OBSOLETE", ...)` with the template
        f" {keyword}") reads as that literal"""
        subst = subst or {}
        nodes = sorted((x for x in ast.walk(fi_.node) if isinstance(x, (ast.JoinedStr, ast.Call)) or (isinstance(x, ast.Constant) and isinstance(x.value, str))),
                       key=lambda x: (x.lineno, x.col_offset))
        inner = {id(v) for x in nodes if isinstance(x, ast.JoinedStr) for v in ast.walk(x) if v is not x}
        for x in nodes:
            if isinstance(x, ast.Call):
                if id(x) in inner:
                    continue
                hf = None
                if isinstance(x.func, ast.Name) and depth < 3:
                    q_ = model.resolve_name(SCHEMA, x.func.id)
                    hf = model.functions.get(q_) if q_ else None
                    if hf is not None and (hf.cls is not None or isinstance(hf.node, ast.Lambda) or hf is fi_):
                        hf = None
                    ps = hf.params() if hf is not None else []
                elif isinstance(x.func, ast.Attribute) and isinstance(x.func.value, ast.Name) and x.func.value.id == "self" and depth < 3:
                    hf = model.find_method(q, x.func.attr)        # a formatting method of the class (or of a mixin it inherits)
                    if hf is not None and (isinstance(hf.node, ast.Lambda) or hf is fi_ or hf.module != SCHEMA):
                        hf = None
                    ps = hf.params()[1:] if hf is not None else []
                if hf is not None:
                    sub2 = {}
                    for p_, a_ in list(zip(ps, x.args)) + [(k.arg, k.value) for k in x.keywords if k.arg]:
                        if isinstance(a_, ast.Constant) and isinstance(a_.value, str):
                            sub2[p_] = a_.value
                        elif isinstance(a_, ast.Name) and a_.id in subst:
                            sub2[p_] = subst[a_.id]
                    yield from literal_stream(hf, depth + 1, sub2)
                continue
            if id(x) in inner and isinstance(x, ast.Constant):
                continue
            if subst and isinstance(x, ast.JoinedStr):
                vals = []
                for v in x.values:
                    if isinstance(v, ast.FormattedValue) and isinstance(v.value, ast.Name) and v.value.id in subst and v.format_spec is None and v.conversion == -1:
                        v = ast.Constant(value=subst[v.value.id])
                    if isinstance(v, ast.Constant) and vals and isinstance(vals[-1], ast.Constant):
                        vals[-1] = ast.Constant(value=vals[-1].value + v.value)
                    else:
                        vals.append(v)
                x = ast.copy_location(ast.JoinedStr(values=vals) if not (len(vals) == 1 and isinstance(vals[0], ast.Constant)) else vals[0], x)
            yield x
    for n in literal_stream(sfi):
        text = ""
        has_value = False
        if isinstance(n, ast.JoinedStr):
            first = n.values[0].value if n.values and isinstance(n.values[0], ast.Constant) else ""
            text = first
            has_value = len(n.values) > 1
        else:
            text = n.value
        import re as _re
        m = _re.match(r"^ ([A-Z][A-Z-]+)( ?)(\(? ?'?)?", text)
        if m and m.group(1) not in [k for k, _ in kws] and not m.group(1).startswith("X-"):
            kws.append((m.group(1), "value" if (has_value or m.group(2)) else "flag"))
    run.coverage.setdefault("keyword_order", {})[cname] = [k for k, _ in kws]
    if len(kws) < 5:
        raise AnalysisError(f"{q}.__str__: fewer keyword literals than expected ({kws})")
    # build the skeleton language: "( 1.2" + optional keywords in that order + " )"
    def val(k: str) -> str:
        if k == "NAME":
            return "(?: 'a'| [(] 'a' 'b' [)])"
        if k == "DESC":
            return " 'd'"
        if k in ("SUP", "MUST", "MAY", "AUX", "NOT"):
            return "(?: a| [(] a [$] b [)])" if not (cname == "AttributeTypeDescription" and k == "SUP") else " a"
        if k in ("EQUALITY", "ORDERING", "SUBSTR"):
            return " a"
        if k == "SYNTAX":
            return "(?: 1[.]2| 1[.]2[{]3[}])"
        if k == "USAGE":
            return " directoryOperation"
        if k.startswith("X-"):
            return "(?: 'v'| [(] 'v' 'w' [)])"
        return ""
    parts = []
    for k, kind in kws:
        if k in ("ABSTRACT", "STRUCTURAL", "AUXILIARY"):
            continue
        parts.append(f"(?: {k}{val(k) if kind == 'value' else ''})?")
    kind_part = "(?: (?:ABSTRACT|STRUCTURAL|AUXILIARY))?" if cname == "ObjectClassDescription" else ""
    # kind sits where the writer appends it: after SUP
    sk = "[(] 1[.]2"
    for k, kind in kws:
        if k in ("ABSTRACT", "STRUCTURAL", "AUXILIARY"):
            continue
        sk += f"(?: {k}{val(k) if kind == 'value' else ''})?"
        if k == "SUP" and kind_part:
            sk += kind_part
    sk += "(?: X-a 'v')?(?: X-b [(] 'v' 'w' [)])? [)]"
    ref = Lang(build(sk, 0, "fullmatch"))
    w = difference_witness(ref, code)
    ok = w is None
    run.ob("H5-keyword-order", ok, {"class": cname, "keywords": [k for k, _ in kws], "counter_example": "".join(chr(c) for c in w) if w else None})
    if not ok:
        run.fail(Finding("H5-keyword-order", q + ".__str__", f"order={[k for k, _ in kws]}",
                         f"__str__ can emit {''.join(chr(c) for c in w)!r} (keywords in its own order), which the description pattern does not accept", model.loc(SCHEMA, sfi.node)))


def decoder_strips_only_the_quotes(model: Model, run: Run, rule: str = "H14-decoder-removes-only-the-delimiters") -> None:
    """H14: the qdstring decoder takes off exactly what the encoder puts around the text - the two quotes.  A strip() that
    also names other characters (a space, a backslash) eats text that begins or ends with them."""
    from ..anchors import schema as schema_anchors
    an = schema_anchors(model)
    dec = an.decoder
    n = 0
    for c in walk_no_nested(dec.node):
        if isinstance(c, ast.Call) and isinstance(c.func, ast.Attribute) and c.func.attr in ("strip", "lstrip", "rstrip"):
            n += 1
            a0 = c.args[0] if c.args else None
            chars = a0.value if isinstance(a0, ast.Constant) and isinstance(a0.value, str) else None
            ok = chars is not None and set(chars) <= {"'"}
            run.ob(rule, ok, {"call": norm(c)[:60]})
            if not ok:
                run.fail(Finding(rule, dec.qualname, norm(c)[:80], f"{dec.name} strips `{norm(c)[:50]}`: anything but the quote characters removed there is part of the text "
                                 "(a description that starts or ends with it does not come back)", model.loc(dec.module, c)))
    run.ob(rule, True, {"strip_calls": n})


def presence_tests_guard_their_own_field(model: Model, run: Run, rule: str = "H15-presence-test-guards-the-field-it-writes") -> None:
    """H15: in the serialisers an `if` that tests fields of the object and whose body writes fields of the object tests (at
    least one of) the fields it writes.  `if self.must: ... MAY {self.may}` writes MAY when there is nothing to write and drops
    it when there is."""
    n = 0
    for cname in CLASSES:
        q = f"{SCHEMA}.{cname}"
        sfi = model.find_method(q, "__str__")
        if sfi is None:
            continue
        fields = {f.name for f in model.dataclass_fields(q)}
        fns = [sfi] + [model.find_method(q, x.attr) for x in ast.walk(sfi.node) if isinstance(x, ast.Attribute) and isinstance(x.value, ast.Name) and x.value.id == "self"
                       and isinstance(x.ctx, ast.Load) and x.attr not in fields and model.find_method(q, x.attr) is not None]
        for fi in {f.qualname: f for f in fns if f is not None and not isinstance(f.node, ast.Lambda)}.values():
            for st in walk_no_nested(fi.node):
                if not isinstance(st, ast.If):
                    continue
                tested = {x.attr for x in ast.walk(st.test) if isinstance(x, ast.Attribute) and isinstance(x.value, ast.Name) and x.value.id == "self" and x.attr in fields}
                if not tested:
                    continue
                # fields written by the statements of the then-branch themselves (not by nested ifs, which are judged on their own)
                written = set()
                for b in st.body:
                    if isinstance(b, ast.If):
                        continue
                    written |= {x.attr for x in ast.walk(b) if isinstance(x, ast.Attribute) and isinstance(x.value, ast.Name) and x.value.id == "self" and x.attr in fields}
                if not written:
                    continue
                n += 1
                ok = bool(tested & written)
                run.ob(rule, ok, {"class": cname, "tested": sorted(tested), "written": sorted(written)})
                if not ok:
                    run.fail(Finding(rule, fi.qualname, f"test={sorted(tested)}|writes={sorted(written)}", f"{cname}.{fi.name} writes {sorted(written)} under a test of {sorted(tested)} "
                                     f"(`{norm(st.test)[:50]}`): the element is written when its own field has nothing to write and left out when it has", model.loc(fi.module, st)))
    run.floor("field-guarded writes in the schema serialisers", n, 1)


def serialisers_are_total(model: Model, run: Run, rule: str = "H16-serialisers-are-total") -> None:
    """H16: str() of a description cannot raise for any field values of the declared types (may-raise analysis of __str__ and
    the formatting helpers it calls): an element list of length zero, an absent name, an unknown enum member must all have
    a text form, or the round trip does not even start."""
    from .c05 import may_raise
    mr = may_raise(model)
    n = 0
    for cname in CLASSES:
        q = f"{SCHEMA}.{cname}"
        sfi = model.find_method(q, "__str__")
        if sfi is None:
            continue
        escs = mr.escapes(sfi.qualname, q)
        n += 1
        if any(e.kind == "unknown-call" for e in escs):
            raise AnalysisError(f"{q}.__str__: a call on the serialiser's path is not resolved ({[e.text[:40] for e in escs if e.kind == 'unknown-call'][:2]})")
        bad = sorted(escs, key=lambda e: (e.exc, e.func, e.line))
        run.ob(rule, not bad, {"class": cname})
        for e in bad[:3]:
            run.fail(Finding(rule, e.func, f"{e.exc.split('.')[-1]}|{e.text[:60]}", f"str({cname}) can raise {e.exc.split('.')[-1]} at `{e.text[:60]}` ({e.why or e.kind})",
                             f"{model.relpath(SCHEMA)}:{e.line}", [e.short()]))
    if mr.unknown_calls:
        unk = [u for u in mr.unknown_calls if "schema" in u]
        if unk:
            raise AnalysisError("unresolved call sites in the schema serialisers: " + "; ".join(sorted(set(unk))[:3]))
    run.floor("schema serialisers analysed for totality", n, 3)


def parsed_numbers_kept(model: Model, run: Run, rule: str = "H13-parsed-zero-is-a-value") -> None:
    """H13 / G11: on the parse side of schema.py (from_string and the helpers it is split into), a number that was just
    converted from the text is not pushed through `<int> or <fallback>` nor dropped under `if <int>:`: number = DIGIT /
    (LDIGIT 1*DIGIT) includes 0, which such a test turns into the fallback."""
    from ..anchors import reachable
    from .c05 import may_raise
    r = may_raise(model).r
    seen = {}
    for cname in CLASSES:
        fi = model.find_method(f"{SCHEMA}.{cname}", "from_string")
        if fi is None:
            continue
        for f_ in reachable(model, fi, SCHEMA):
            if not isinstance(f_.node, ast.Lambda):
                seen[f_.qualname] = f_
    n = 0
    for fq, fi in sorted(seen.items()):
        for x in walk_no_nested(fi.node):
            if isinstance(x, ast.BoolOp) and isinstance(x.op, ast.Or) and len(x.values) >= 2:
                left = x.values[0]
                try:
                    t = r.type_of(left, fi)
                except Exception:
                    continue
                if t == ("prim", "int") and not isinstance(left, ast.Constant):
                    n += 1
                    run.ob(rule, False, {"function": fi.name, "expression": norm(x)[:60]})
                    run.fail(Finding(rule, fq, norm(x)[:80], f"{fi.name} evaluates `{norm(x)[:70]}`: the left side is an int that is never None, so the fallback is taken exactly "
                                     "when the number in the text is 0 - a value the grammar allows", model.loc(fi.module, x)))
    run.ob(rule, True, {"functions": len(seen), "sites": n})


def int_presence_tests(model: Model, run: Run) -> None:
    """H8: in the serialisers, a field that may hold 0 (annotated int / Optional[int]) is tested for presence with
    `is not None`, never by truthiness: `if self.n:` drops a legitimate 0 from the text and the parser gives None back."""
    from ..resolve import Resolver
    rs = Resolver(model)
    n = 0
    for cq, c in sorted(model.classes.items()):
        if c.module != "sansldap.schema" or "__str__" not in c.methods:
            continue
        fi = c.methods["__str__"]
        fields = {f.name: (norm(f.annotation) if f.annotation is not None else "") for f in model.dataclass_fields(cq)} if c.is_dataclass else {}
        intf = {k for k, a in fields.items() if a in ("int", "t.Optional[int]", "typing.Optional[int]", "Optional[int]")}
        if not intf:
            continue

        def truthy_tests(e: ast.expr):
            """sub-expressions of a condition that are evaluated for truth"""
            if isinstance(e, ast.BoolOp):
                for v in e.values:
                    yield from truthy_tests(v)
            elif isinstance(e, ast.UnaryOp) and isinstance(e.op, ast.Not):
                yield from truthy_tests(e.operand)
            else:
                yield e
        for x in walk_no_nested(fi.node):
            tests = []
            if isinstance(x, (ast.If, ast.While, ast.IfExp)):
                tests = list(truthy_tests(x.test))
            elif isinstance(x, ast.BoolOp):
                tests = [v for v in x.values[:-1] for v in truthy_tests(v)]
            for t_ in tests:
                if isinstance(t_, ast.Attribute) and isinstance(t_.value, ast.Name) and t_.value.id == "self" and t_.attr in intf:
                    n += 1
                    run.ob("H8-int-fields-tested-with-is-not-none", False, {"class": c.name, "field": t_.attr})
                    run.fail(Finding("H8-int-fields-tested-with-is-not-none", fi.qualname, f"truthiness of self.{t_.attr}",
                                     f"{c.name}.__str__ decides whether to write `{t_.attr}` ({fields[t_.attr]}) by its truthiness: the value 0 is valid (number = DIGIT / ...) and is silently dropped, "
                                     "so the text parses back with None", model.loc(c.module, t_)))
        for k in sorted(intf):
            run.ob("H8-int-fields-tested-with-is-not-none", True, {"class": c.name, "field": k})


STRIPS = ("strip", "lstrip", "rstrip")


def matched_text_is_the_input(model: Model, run: Run, rule: str) -> None:
    """H11: what from_string hands to the description pattern is its own argument (trimming the ends aside).  A definition
    contains quoted strings with arbitrary characters, so any rewriting of the whole text before it is matched (unfolding,
    whitespace normalisation, case folding) changes the content of DESC / extension values."""
    from .c05 import may_raise
    mr = may_raise(model)
    sites = [s_ for s_ in find_sites(model, (SCHEMA,)) if s_.module == SCHEMA and s_.api in ("match", "fullmatch") and s_.subject is not None and s_.func in model.functions]

    def origin(e: ast.expr, fi: FuncInfo, depth: int = 0):
        """('param', name) | ('other', text) for where a str expression comes from"""
        if depth > 6:
            return [("other", norm(e))]
        if isinstance(e, ast.Name):
            if e.id in fi.params() and not any(isinstance(x, ast.Name) and x.id == e.id and isinstance(x.ctx, ast.Store) for x in walk_no_nested(fi.node)):
                return [("param", e.id)]
            binds = [a.value for a in walk_no_nested(fi.node) if isinstance(a, (ast.Assign, ast.AnnAssign)) and a.value is not None and
                     any(isinstance(t_, ast.Name) and t_.id == e.id for t_ in (a.targets if isinstance(a, ast.Assign) else [a.target]))]
            if e.id in fi.params():
                binds = binds + [None]
            if not binds:
                return [("other", norm(e))]
            out = []
            for b in binds:
                out += [("param", e.id)] if b is None else origin(b, fi, depth + 1)
            return out
        if isinstance(e, ast.Call) and isinstance(e.func, ast.Attribute) and e.func.attr in STRIPS and not e.keywords and \
                (not e.args or (isinstance(e.args[0], ast.Constant) and isinstance(e.args[0].value, str) and e.args[0].value.strip() == "")):
            return origin(e.func.value, fi, depth + 1)
        if isinstance(e, ast.Call) and isinstance(e.func, ast.Name):
            body = mr.predicate_body(e, fi)
            if body is not None:
                return origin(body, fi, depth + 1)
        return [("other", norm(e))]

    def callers_ok(fi: FuncInfo, pname: str, depth: int = 0):
        """the text parameter `pname` of fi, followed to the from_string that received it: problems found on the way"""
        if fi.name == "from_string" or depth > 3:
            return [], 1
        bad, n = [], 0
        ps = fi.params()
        idx = ps.index(pname)
        for cq, cfi in model.functions.items():
            if cfi.module != SCHEMA or isinstance(cfi.node, ast.Lambda) or cfi is fi:
                continue
            for c in walk_no_nested(cfi.node):
                if not (isinstance(c, ast.Call) and isinstance(c.func, (ast.Name, ast.Attribute))):
                    continue
                nm = c.func.id if isinstance(c.func, ast.Name) else c.func.attr
                if nm != fi.name:
                    continue
                off = 1 if (fi.cls and not fi.is_staticmethod and isinstance(c.func, ast.Attribute)) else 0
                arg = next((k.value for k in c.keywords if k.arg == pname), None)
                if arg is None and 0 <= idx - off < len(c.args):
                    arg = c.args[idx - off]
                if arg is None:
                    continue
                for kind, what in origin(arg, cfi):
                    if kind == "other":
                        bad.append((cfi, c, what))
                    else:
                        b2, n2 = callers_ok(cfi, what, depth + 1)
                        bad += b2
                        n += n2
        return bad, n
    n_top = 0
    for s_ in sites:
        fi = model.functions[s_.func]
        for kind, what in origin(s_.subject, fi):
            if kind == "param":
                bad, n = callers_ok(fi, what)
                if n == 0 and not bad:
                    continue            # a sub-parser that is not fed from a from_string
                n_top += n
                run.ob(rule, not bad, {"function": fi.qualname.split(".")[-1], "pattern": s_.name, "text": norm(s_.subject)})
                for cfi, c, w in bad:
                    run.fail(Finding(rule, cfi.qualname, f"{s_.name}.match <- {w[:60]}",
                                     f"{cfi.qualname.split('.')[-1]} passes `{w[:60]}` on to {fi.name}, which matches it against {s_.name}: the definition text is rewritten before it is parsed",
                                     model.loc(cfi.module, c)))
            elif fi.name == "from_string" or any(isinstance(x, ast.Name) and x.id in fi.params() for x in ast.walk(ast.parse(what, mode="eval"))):
                # derived from a parameter by something other than trimming
                roots = [x.id for x in ast.walk(ast.parse(what, mode="eval")) if isinstance(x, ast.Name) and x.id in fi.params()]
                reaches = fi.name == "from_string" or any(callers_ok(fi, r_)[1] for r_ in roots)
                if not roots or not reaches:
                    continue
                if isinstance(ast.parse(what, mode="eval").body, (ast.Subscript, ast.Attribute)) or ".group(" in what:
                    continue            # a part of the text (a captured group, a slice): sub-parsers work on parts by design
                n_top += 1
                run.ob(rule, False, {"function": fi.qualname.split(".")[-1], "pattern": s_.name, "text": what})
                run.fail(Finding(rule, fi.qualname, f"{s_.name}.match <- {what[:60]}",
                                 f"{fi.qualname.split('.')[-1]} matches {s_.name} against `{what[:60]}`, not against the text it was given: quoted strings inside a definition may contain "
                                 "any character, so rewriting the text before parsing changes their content", model.loc(fi.module, s_.node)))
    run.floor("description patterns matched against a from_string argument", n_top, 3)
