"""C09 - client correlates responses to requests strictly by message ID."""
from __future__ import annotations

import ast

from ..report import Finding, Run
from ..sessrules import (M, OBUF, OUT, SEARCH, SESSION_CLASSES, Extraction, common_coverage, discharge_implicit, exc_short,
                         ext_msg, extends, extraction, fact, implicit_paths, msg_short, path_key, where, NOTICE_ATOM)
from ..session import SESSION_MOD, Const, CounterVal, Obj, desc
from ..srcmodel import AnalysisError, Model, norm

CLIENT = f"{SESSION_MOD}.LDAPClient"
COUNTER = "_message_counter"


def counter_writers(model: Model):
    """Every syntactic writer of the counter attribute in the package."""
    out = []
    for fq, fi in model.functions.items():
        for n in ast.walk(fi.node):
            tgt = None
            if isinstance(n, (ast.Assign, ast.AnnAssign)):
                for t in (n.targets if isinstance(n, ast.Assign) else [n.target]):
                    for x in ast.walk(t):
                        if isinstance(x, ast.Attribute) and x.attr == COUNTER:
                            tgt = ("assign", n)
            elif isinstance(n, ast.AugAssign) and isinstance(n.target, ast.Attribute) and n.target.attr == COUNTER:
                tgt = ("aug", n)
            elif isinstance(n, ast.Call) and any(isinstance(a, ast.Constant) and a.value == COUNTER for a in n.args):
                tgt = ("dynamic", n)
            elif isinstance(n, ast.Delete) and any(isinstance(x, ast.Attribute) and x.attr == COUNTER for t in n.targets for x in ast.walk(t)):
                tgt = ("del", n)
            if tgt:
                out.append((fq, fi, tgt[0], tgt[1]))
    return out


def id_codec_symmetry(model: Model, run: Run) -> None:
    """N6: "the IDs carried in the bytes": the first component of every message envelope is written by the plain INTEGER
    writer from `message_id`, and the envelope decoder reads its first component with the plain INTEGER reader (same tag,
    no mode switch, no conversion of its own) into the value that becomes `message_id`."""
    from ..tlvcheck import extracted, short
    tx = extracted(model)
    env = tx.envelope.nodes
    if not (len(env) == 1 and env[0].kind == "cons" and env[0].children):
        raise AnalysisError("unexpected envelope shape in the reader grammar")
    r0 = env[0].children[0]
    n = 0
    for c in tx.msg_classes:
        w = tx.wgram.get(c)
        if not w or not (len(w) == 1 and w[0].kind == "cons" and w[0].children):
            continue
        w0 = w[0].children[0]
        n += 1
        problems = []
        if not (w0.kind == "prim" and w0.ukind == "integer" and w0.src is not None and w0.src.path == "message_id" and w0.src.conv == "identity" and not w0.modes):
            problems.append(f"pack writes `{w0.brief()[:60]}` first, not the plain INTEGER of message_id")
        if not (r0.kind == "prim" and r0.ukind == "integer" and r0.conv == "identity" and not r0.modes):
            problems.append(f"the envelope decoder reads `{r0.brief()[:60]}`" + (f" ({r0.modes})" if r0.modes else "") + " first, not a plain INTEGER")
        elif w0.tag is not None and r0.spec is not None and not r0.spec.accepts(w0.tag):
            problems.append(f"the decoder expects {r0.spec!r} where pack writes {w0.tag}")
        run.ob("N6-id-codec-symmetric", not problems, {"class": short(c)})
        if problems:
            run.fail(Finding("N6-id-codec-symmetric", c if "pack writes" in problems[0] else tx.envelope.func, problems[0][:100],
                             f"{short(c)}: " + "; ".join(problems) + ": the ID a peer reads is not the ID the session handed out (or the other way round)", ""))
    run.floor("message envelopes compared for the ID codec", n, 9)
    # ... "no conversion of its own": the local the ID is read into is bound once - by that read - and reaches the constructors as read
    efi = model.functions.get(tx.envelope.func)
    import re as _re
    from ..anchors import reachable as _reachable
    var0 = _re.sub(r"__\d+$", "", r0.var or "")
    if efi is not None and var0:
        # the read may sit in a private helper the envelope decoder was inlined from: the function that binds the local from read_integer
        for g_ in _reachable(model, efi):
            if not isinstance(g_.node, ast.Lambda) and any(isinstance(x, (ast.Assign, ast.AnnAssign)) and x.value is not None and
                                                            any(isinstance(t_, ast.Name) and t_.id == var0 for t_ in (x.targets if isinstance(x, ast.Assign) else [x.target])) and
                                                            any(isinstance(c_, ast.Call) and isinstance(c_.func, ast.Attribute) and c_.func.attr == "read_integer" for c_ in ast.walk(x.value))
                                                            for x in ast.walk(g_.node)):
                efi = g_
                break
    r0_var = var0
    if efi is not None and r0_var:
        stores = [x for x in ast.walk(efi.node) if (isinstance(x, (ast.Assign, ast.AnnAssign, ast.AugAssign, ast.NamedExpr, ast.For)) and
                                                    any(isinstance(t_, ast.Name) and t_.id == r0_var and isinstance(t_.ctx, ast.Store)
                                                        for tt in ([x.target] if not isinstance(x, ast.Assign) else x.targets) for t_ in ast.walk(tt)))]
        extra = [x for x in stores if not (isinstance(x, (ast.Assign, ast.AnnAssign)) and x.value is not None and
                                           any(isinstance(c_, ast.Call) and isinstance(c_.func, ast.Attribute) and c_.func.attr == "read_integer" for c_ in ast.walk(x.value)))]
        run.ob("N6-id-codec-symmetric", not extra, {"decoder": efi.name, "id_local": r0_var, "bindings": len(stores)})
        if extra:
            run.fail(Finding("N6-id-codec-symmetric", efi.qualname, norm(extra[0])[:80],
                             f"{efi.name} changes `{r0_var}` after reading it (`{norm(extra[0])[:60]}`): the ID the session correlates by is not the ID in the bytes - a response "
                             "carrying an ID nobody issued is matched to an outstanding request", model.loc(efi.module, extra[0])))
    # ... and that writer has one implementation of the content octets (no unsigned shortcut for "small" ids)
    from .c05 import may_raise
    from .c07 import hand_built_integer_content
    hand_built_integer_content(model, run, may_raise(model))


def check(model: Model, run: Run) -> None:
    ex = extraction(model)
    run.explanation = ("client correlation rules on the path summaries of LDAPClient extracted by Engine D: counter discipline "
                       "(who may write, only += positive constant), stamping (id read from the counter, stamped before the "
                       "bytes are queued, returned, recorded as outstanding only after the send), acceptance/rejection table of "
                       "incoming messages by (class, id in search set, id in outstanding set)")
    common_coverage(ex, run)
    id_codec_symmetry(model, run)
    # a response for an unknown or completed id is refused with ProtocolError - provided building the refusal cannot itself fail
    from ..tlvcheck import dispatch_entries_are_owned
    dispatch_entries_are_owned(model, run, "N8-dispatch-entries-are-owned",
                               "a response of a kind the client does not implement is taken for a SearchResultDone (or another final response) and completes an operation it does not belong to")
    from .c10 import refusal_text_is_total
    refusal_text_is_total(model, run, ex, "N7-refusal-is-raised-as-written")
    # ---- counter discipline ------------------------------------------------
    ws = counter_writers(model)
    run.floor("counter writers", len(ws), 2)
    for fq, fi, kind, node in ws:
        ok = False
        why = ""
        if kind == "assign":
            v = node.value
            ok = fq == f"{CLIENT}.__init__" and isinstance(v, ast.Constant) and isinstance(v.value, int) and not isinstance(v.value, bool) and v.value >= 1
            why = "the counter may only be initialised in LDAPClient.__init__ to a positive literal"
            if not ok and fq != f"{CLIENT}.__init__":
                # `self.ctr = <value read from self.ctr> + <positive literal>`: Engine D evaluates it; every path through the
                # statement must record it as an advance of the counter
                effs = [e for p in ex.paths[CLIENT] for e in p.effects if e.func == fq and e.line == node.lineno and e.a == COUNTER and e.kind in ("counter", "attr_assign")]
                ok = bool(effs) and all(e.kind == "counter" and isinstance(e.b, int) and e.b >= 1 for e in effs)
                why = "the counter may only be advanced by a positive constant from its own current value"
        elif kind == "aug":
            v = node.value
            ok = isinstance(node.op, ast.Add) and isinstance(v, ast.Constant) and isinstance(v.value, int) and v.value >= 1
            why = "the counter may only be advanced with += <positive literal>"
        else:
            why = "dynamic/delete access to the counter"
        run.ob("N1-counter-writers", ok, {"function": fq, "statement": norm(node)})
        if not ok:
            run.fail(Finding("N1-counter-writers", fq, norm(node), why, model.loc(fi.module, node)))
    init_ok = any(fq == f"{CLIENT}.__init__" and k == "assign" for fq, _, k, _ in ws)
    run.ob("N1-counter-initialised", init_ok)
    if not init_ok:
        run.fail(Finding("N1-counter-initialised", f"{CLIENT}.__init__", "no literal initialisation", "message counter is not initialised to a positive literal in __init__", ""))

    # ---- stamping ----------------------------------------------------------
    n_send = 0
    for p in ex.paths[CLIENT]:
        if p.pre_state == "CLOSED":
            continue
        exts = extends(p)
        adds = [e for e in p.effects if e.kind == "set_add" and e.a == OUT]
        for e in exts:
            o = ext_msg(e)
            if o is None:
                run.ob("N2-stamping", False)
                run.fail(Finding("N2-stamping", e.func, e.text, "bytes queued that are not the encoding of a message object", where(ex, e), p.trace()))
                continue
            if msg_short(o) == "UnbindRequest":
                continue
            n_send += 1
            idx = p.effects.index(e)
            stamps = [s for s in p.effects[:idx] if s.kind == "stamp" and s.a is o and s.b[0] == "message_id"]
            ok = bool(stamps) and isinstance(stamps[-1].b[1], CounterVal)
            sample = {"entry": f"LDAPClient.{p.entry}", "pre": p.pre_state, "message": msg_short(o)}
            if not ok:
                run.ob("N2-stamping", False, sample)
                run.fail(Finding("N2-stamping", e.func, f"{msg_short(o)} queued without a counter stamp", "a request is queued whose message_id was not set from the message counter before encoding", where(ex, e), p.trace()))
                continue
            v = stamps[-1].b[1]
            ok = True
            if p.outcome.kind == "return":
                # the counter ends above the value handed out, so the next call reads a fresh id
                ok = sum(c.b for c in p.effects if c.kind == "counter" and isinstance(c.b, int)) >= v.k + 1
                ok = ok and p.outcome.value == v
                ok = ok and any(a.b == v for a in adds)
            run.ob("N2-stamping", ok, dict(sample, stamped=desc(v), returned=desc(p.outcome.value) if p.outcome.kind == "return" else None))
            if not ok:
                run.fail(Finding("N2-stamping", f"{CLIENT}.{p.entry}", f"{msg_short(o)}|stamp={desc(v)}|ret={desc(p.outcome.value) if p.outcome.kind == 'return' else exc_short(p)}",
                                 "id stamped into the bytes, id returned, id recorded outstanding and the counter advance do not agree on this path", where(ex, e), p.trace()))
        # ids become outstanding only once their request was queued
        for a in adds:
            idx = p.effects.index(a)
            sent = [e for e in exts if p.effects.index(e) < idx and ext_msg(e) is not None and any(
                s.kind == "stamp" and s.a is ext_msg(e) and s.b[1] == a.b for s in p.effects[:p.effects.index(e)])]
            ok = bool(sent)
            run.ob("N3-outstanding-only-after-send", ok, {"entry": f"LDAPClient.{p.entry}", "id": desc(a.b)})
            if not ok:
                run.fail(Finding("N3-outstanding-only-after-send", a.func, a.text, "an id is recorded as outstanding before (or without) its request being queued: a refused send leaves an id that was never emitted",
                                 where(ex, a), p.trace()))
    run.floor("client send paths", n_send, 9)

    # ---- acceptance / rejection table ---------------------------------------
    n_acc = 0
    for p in ex.paths[CLIENT]:
        if p.entry != "receive" or p.pre_state == "CLOSED" or not p.msg_in:
            continue
        k = p.msg_in.split(".")[-1]
        if k == "UnbindRequest" or (k == "ExtendedResponse" and fact(p, ("eq(", NOTICE_ATOM, "msg.name")) is True):
            continue   # terminations: C08 R6
        if p.outcome.kind == "raise" and not (p.outcome.exc.origin == "explicit" or p.outcome.exc.origin.startswith("implicit:")):
            continue   # decode / notification-encoding failures are not correlation decisions
        n_acc += 1
        is_resp = model.is_subclass(p.msg_in, M + "Response")
        in_search = p.facts_at_decision.get("search") if hasattr(p, "facts_at_decision") else None
        # membership facts as first established on the path (guards), not as left after removals
        g_search = [e for e in p.effects if e.kind == "guard" and f"in self.{SEARCH}" in str(e.a)]
        g_out = [e for e in p.effects if e.kind == "guard" and f"in self.{OUT}" in str(e.a)]
        in_search = g_search[0].b if g_search else None
        if g_out:
            txt = str(g_out[0].a)
            in_out = g_out[0].b if " not in " not in txt else (not g_out[0].b)
        else:
            in_out = None
        if g_search and " not in " in str(g_search[0].a):
            in_search = not in_search
        rm_out = any(e.kind in ("set_remove", "set_discard") and e.a == OUT and desc(e.b) == "msg.message_id" for e in p.effects)
        rm_search = any(e.kind in ("set_remove", "set_discard") and e.a == SEARCH and desc(e.b) == "msg.message_id" for e in p.effects)
        accepted = p.outcome.kind == "return"
        sample = {"incoming": k, "pre": p.pre_state, "id_in_search": in_search, "id_in_outstanding": in_out,
                  "outcome": "accepted" if accepted else exc_short(p), "retired": rm_out, "search_closed": rm_search}
        if p.outcome.kind == "raise" and p.outcome.exc.origin.startswith("implicit:"):
            okd, why = discharge_implicit(ex, CLIENT, p)
            run.ob("N5-no-implicit-failure", okd, dict(sample, discharge=why))
            if not okd:
                e = [x for x in p.effects if x.kind == "implicit"][-1]
                run.fail(Finding("N5-no-implicit-failure", e.func, e.text, f"{exc_short(p)} possible while processing a {k}: {why}", where(ex, e), p.trace()))
            continue
        if not is_resp:
            ok = not accepted and p.outcome.exc.cls.endswith(".ProtocolError")
            why = "a request-type message must be rejected with ProtocolError"
        elif in_search is True:
            if k == "SearchResultDone":
                ok = accepted and rm_out and rm_search
                why = "the done message of a search in progress must be accepted and retire the id from both sets"
            else:
                ok = accepted and not rm_out and not rm_search
                why = "a response for a search in progress (not its done message) must be accepted and leave the search in progress"
        elif in_out is True:
            ok = accepted and rm_out
            why = "the first response to an outstanding non-search operation must be accepted and complete it"
        elif in_out is False and in_search in (False, None):
            ok = (not accepted) and p.outcome.exc.cls.endswith(".ProtocolError")
            why = "a response whose id is neither a search in progress nor outstanding must be rejected with ProtocolError"
        else:
            ok = not accepted
            why = "a response was accepted on a path that never established that its id belongs to an operation in progress"
        run.ob("N4-acceptance-table", ok, sample)
        if not ok:
            run.fail(Finding("N4-acceptance-table", f"{CLIENT}._process_incoming_message",
                             f"{k}|search={in_search}|outstanding={in_out}|{'accepted' if accepted else exc_short(p)}|retired={rm_out}|search_closed={rm_search}",
                             why, "", p.trace()))
    run.floor("acceptance paths", n_acc, 40)
