"""C07 - BER primitives (structural clauses only; the arithmetic itself is not decidable statically).

Decided: (a) totality/range safety of the primitive readers and writers (every integer
subscript in range, every bytearray element store within 0..255, struct.unpack fed exactly
one octet), (b) no over-consumption and no silent clamping (L1, L2, T1), (c) agreement of the
constants that the writer and the reader use for the same bit fields.
Not decided (needs arithmetic reasoning): minimal two's complement, value denoted by content
octets, multi-octet tag/length round trip.
"""
from __future__ import annotations

import ast
from typing import Dict, List, Optional, Set

from ..facts import const_int
from ..readerrules import lemma_no_consume_on_failure, lemma_no_silent_clamp
from ..report import Finding, Run
from ..srcmodel import AnalysisError, Model, norm, walk_no_nested
from .c05 import check_len_octets, may_raise
from ..raises import Esc

ASN1 = "sansldap.asn1"
def packer_precondition(model: Model, mr, site) -> tuple:
    """A raiser inside the TLV packer that can only fire for an invalid caller-supplied tag: the explicit
    range check on the tag class, or a byte store that is in range as soon as the tag number is >= 0 and
    the class in 0..3 (re-evaluated under exactly those assumptions)."""
    from ..anchors import asn1 as asn1_anchors
    from ..facts import FactFlow
    an = asn1_anchors(model)
    fam = {f.qualname: f for f in an.packer_family}
    fi = fam.get(site["function"])
    if fi is None:
        return False, ""
    # the tag parameters of whichever function of the packer family the site is in, by annotation
    cls_p = num_p = None
    for a in fi.node.args.args:
        ann = norm(a.annotation) if a.annotation is not None else ""
        if ann.endswith("TagClass"):
            cls_p = a.arg
        elif "TypeTagNumber" in ann or (ann == "int" and "number" in a.arg):
            num_p = a.arg
    if cls_p is None and num_p is None:
        return False, "tag parameters not identified"
    init = set()
    if cls_p:
        init |= {("INT", cls_p, 0, 3), ("GE0", cls_p)}
    if num_p:
        init |= {("INT", num_p, 0, float("inf")), ("GE0", num_p)}
    init = frozenset(init)
    fl = FactFlow(fi.node, ival=lambda e, facts: mr.ival(e, facts, fi), init_facts=init | mr.param_facts(fi))
    for n in walk_no_nested(fi.node):
        if not (isinstance(n, ast.Call) and n.lineno == site["line"] and n.args):
            continue
        elems = None
        if isinstance(n.func, ast.Attribute) and n.func.attr == "append":
            elems = [n.args[0]]
        elif isinstance(n.func, ast.Name) and n.func.id in ("bytearray", "bytes") and isinstance(n.args[0], ast.List):
            elems = list(n.args[0].elts)
        if elems is None or norm(n)[:100] != site["construct"][:100]:
            continue
        ivs = [mr.ival(x, fl.facts_at.get(id(n), frozenset()), fi) for x in elems]
        if all(lo >= 0 and hi <= 255 for lo, hi in ivs):
            return True, f"in range {ivs} once the tag class is in 0..3 and the tag number >= 0 (constant tags: C05 P2)"
    return False, ""


def consts_in(fi, pred) -> List[int]:
    out = []
    for n in walk_no_nested(fi.node):
        if pred(n):
            out.append(n)
    return out


def check(model: Model, run: Run) -> None:
    mr = may_raise(model)
    run.explanation = ("(a) every catalogued implicit-raiser site of asn1.py (integer subscripts, bytearray element stores and appends, struct.unpack, "
                       "enum conversions) is classified with guard facts and integer intervals: a reader/writer primitive can only fail with "
                       "ValueError/NotEnougData (reader) or on an invalid caller-supplied tag (writer); (b) L1/L2/T1: a reader never advances before "
                       "validating, advances by exactly header+content, and never slices past the input silently; (c) the writer's and the reader's "
                       "bit-field constants agree. The arithmetic equalities of the property are NOT decided by this check")
    fns = [fi for fq, fi in model.functions.items() if fi.module == ASN1 and not isinstance(fi.node, ast.Lambda)]
    run.floor("asn1 functions", len(fns), 30)
    from ..commonrules import memoised_results_are_immutable
    memoised_results_are_immutable(model, run, "S14-no-memoised-mutable-octets", [ASN1],
                                   "the octets one call appends to are the octets the next call starts from")
    # a private generator helper every use of which was expanded in place (nothing refers to it any more) is judged at those
    # expansions, with the arguments of each call site; its own text has no caller to take parameter facts from
    def expanded_away(fi) -> bool:
        if fi.cls is not None or not fi.name.startswith("_") or not any(isinstance(x, (ast.Yield, ast.YieldFrom)) for x in walk_no_nested(fi.node)):
            return False
        return not any(isinstance(x, ast.Name) and x.id == fi.name for g in model.functions.values() if g is not fi and not isinstance(g.node, ast.Lambda)
                       and g.module == fi.module for x in ast.walk(g.node))
    fns = [fi for fi in fns if not expanded_away(fi)]
    # a public method of the reader / writer that is written entirely in terms of other public methods of the same object (it touches
    # no private attribute and calls no module helper) adds no BER of its own: what it adds - a text codec, a conversion - is not
    # one of the primitives this property is about
    def composition(fi) -> bool:
        if fi.cls not in (f"{ASN1}.ASN1Reader", f"{ASN1}.ASN1Writer") or fi.name.startswith("_"):
            return False
        for x in ast.walk(fi.node):
            if isinstance(x, ast.Attribute) and isinstance(x.value, ast.Name) and x.value.id == "self" and x.attr.startswith("_"):
                return False
            if isinstance(x, ast.Name) and isinstance(x.ctx, ast.Load):
                q_ = model.resolve_name(fi.module, x.id)
                if q_ in model.functions and model.functions[q_].module == ASN1:
                    return False
        return any(isinstance(x, ast.Call) and isinstance(x.func, ast.Attribute) and isinstance(x.func.value, ast.Name) and x.func.value.id == "self" for x in ast.walk(fi.node))
    comps = {fi.qualname for fi in fns if composition(fi)}
    if comps:
        run.note("methods built only from other public methods of the same class, not judged as primitives: " + ", ".join(sorted(q.split('.')[-1] for q in comps)))
    fns = [fi for fi in fns if fi.qualname not in comps]
    # ---- (a) totality -------------------------------------------------------------
    for fi in fns:
        mr.escapes(fi.qualname, fi.cls)
    judged = {fi.qualname for fi in fns}
    sites = [s for s in mr.implicit_sites if s["function"].startswith(ASN1 + ".") and s["function"] not in comps and
             (s["function"] in judged or s["function"] not in model.functions or not expanded_away(model.functions[s["function"]]))]
    run.floor("implicit raiser sites in asn1.py", len(sites), 25)
    allowed_reader = {"ValueError", "UnicodeDecodeError"}
    for s in sites:
        fn = s["function"].split(".")[-1]
        if s["verdict"] == "safe":
            run.ob("A1-primitive-totality", True, {"function": fn, "construct": s["construct"], "kind": s["kind"], "why": s["reason"]})
            continue
        if s["verdict"] == "deferred":
            continue
        if s["kind"] == "enum-conversion" and s["exception"] == "ValueError":
            run.ob("A1-primitive-totality", True, {"function": fn, "construct": s["construct"], "why": "ValueError is the documented rejection of an unknown tag class/number/enum value"})
            continue
        okp, whyp = packer_precondition(model, mr, s) if s["kind"] == "bytearray-store" else (False, "")
        if okp:
            run.note(f"precondition: {fn}: {s['construct']}: {whyp}")
            run.ob("A1-primitive-totality", True, {"function": fn, "construct": s["construct"], "why": "caller precondition: " + whyp})
            continue
        if s["kind"] == "bytearray-store" and "len(" in s["construct"]:
            ok, why = check_len_octets(model, Esc("ValueError", s["function"], s["construct"], s["line"], "implicit"))
            run.ob("A1-primitive-totality", ok, {"function": fn, "construct": s["construct"], "why": why})
            if ok:
                continue
        run.ob("A1-primitive-totality", False, {"function": fn, "construct": s["construct"], "kind": s["kind"], "why": s["reason"]})
        run.fail(Finding("A1-primitive-totality", s["function"], f"{s['kind']}|{s['construct']}",
                         f"{s['exception']} possible at `{s['construct']}`: {s['reason']}", f"{model.relpath(ASN1)}:{s['line']}"))
    # ---- (b) consumption lemmas -----------------------------------------------------
    lemma_no_consume_on_failure(model, run, "C07")
    lemma_no_silent_clamp(model, run, mr)
    # ---- (c) sibling constants -------------------------------------------------------
    sibling_constants(model, run)
    # ---- (d) the primitives never modify the buffers they are handed ---------------------
    argument_mutation(model, run, fns)
    # ---- (e) a constructed value is flushed as written, under the tag it was opened with ----
    constructed_flush(model, run)
    # ---- (f) one implementation of the integer content octets; readers and sub-readers cannot be refused ----
    hand_built_integer_content(model, run, mr)
    integer_contents_are_signed(model, run)
    codec_parameters_are_used(model, run)
    reader_construction_total(model, run, mr)
    from ..readerrules import lemma_peek_is_pure
    lemma_peek_is_pure(model, run)
    from ..readerrules import lemma_consuming_methods_advance
    lemma_consuming_methods_advance(model, run)




def sibling_constants(model: Model, run: Run) -> None:
    from ..anchors import asn1 as asn1_anchors
    an = asn1_anchors(model)
    w, r = an.packer, an.header
    if not an.number_writers or not an.number_readers:
        raise AnalysisError("multi-octet tag-number helpers not identified")
    # roles, found by dataflow in anchors: the functions that produce / consume the multi-octet tag number, and the rest of
    # the header routine's and the packer's private helpers (identifier octet, length octets)
    wn_fns = [an.number_writers[-1]]
    rn_fns = list(an.number_readers)
    w_fns = [f for f in an.packer_family if f not in wn_fns]
    r_fns = [f for f in an.header_family if f not in rn_fns]

    class Fam:
        """A group of functions searched as one body."""
        def __init__(self, fns):
            self.fns = fns
            self.node = ast.Module(body=[f.node for f in fns], type_ignores=[])
            self.qualname = fns[0].qualname
            self.module = fns[0].module
    w, r, wn, rn = Fam(w_fns), Fam(r_fns), Fam(wn_fns), Fam(rn_fns)

    def compares(fi, var_pred):
        out = []
        for n in ast.walk(fi.node):
            if isinstance(n, ast.Compare) and len(n.ops) == 1 and var_pred(n.left) and const_int(n.comparators[0]) is not None:
                out.append((type(n.ops[0]).__name__, const_int(n.comparators[0]), n))
        return out

    # the same bit operation has an arithmetic spelling: x % 2**k is x & (2**k - 1), x // 2**k is x >> k, x * 2**k is x << k
    ARITH = {ast.BitAnd: (ast.Mod, lambda c: c - 1), ast.RShift: (ast.FloorDiv, lambda c: c.bit_length() - 1), ast.LShift: (ast.Mult, lambda c: c.bit_length() - 1)}

    def binops(fi, optype, left_pred=lambda e: True):
        out = []
        alt = ARITH.get(optype)
        for n in ast.walk(fi.node):
            if isinstance(n, (ast.BinOp, ast.AugAssign)) and isinstance(n.op, optype):
                rhs = n.right if isinstance(n, ast.BinOp) else n.value
                lhs = n.left if isinstance(n, ast.BinOp) else n.target
                c = const_int(rhs)
                if c is not None and left_pred(lhs):
                    out.append((c, n))
            elif alt is not None and isinstance(n, (ast.BinOp, ast.AugAssign)) and isinstance(n.op, alt[0]):
                rhs = n.right if isinstance(n, ast.BinOp) else n.value
                lhs = n.left if isinstance(n, ast.BinOp) else n.target
                c = const_int(rhs)
                if c is not None and c >= 2 and c & (c - 1) == 0 and left_pred(lhs):
                    out.append((alt[1](c), n))
        return out

    def ob(rule, ok, what, where_node, fi, sample):
        run.ob(rule, ok, sample)
        if not ok:
            run.fail(Finding(rule, fi.qualname, what, what, model.loc(fi.module, where_node)))

    # S1: low-tag-number form: writer uses the one-octet form for numbers < K, reader treats K as the escape
    wt = [c for c in compares(w, lambda e: isinstance(e, ast.Name) and "tag_number" in e.id) if c[0] in ("Lt", "LtE", "Gt", "GtE")]
    rt = [c for c in compares(r, lambda e: isinstance(e, ast.Name) and "tag_number" in e.id) if c[0] in ("Eq",)]
    rmask = [c for c, n in binops(r, ast.BitAnd) if c == 31]
    wset = [c for c, n in binops(w, ast.BitOr) if c == 31]
    if not wt or not rt:
        raise AnalysisError("tag-number form tests not found in the TLV packer / header routine")
    op, k, node = wt[0]
    w_first_long = {"Lt": k, "LtE": k + 1, "Gt": k + 1, "GtE": k}[op]      # smallest number written in the long form
    ok = w_first_long == rt[0][1] == 31 and bool(rmask) and bool(wset)
    ob("S1-tag-form-threshold", ok, f"writer switches to the multi-octet tag form at {w_first_long}, reader escapes at {rt[0][1]} (mask {rmask[:1]}, marker {wset[:1]}): must all be 31",
       node, w, {"writer_first_long_form": w_first_long, "reader_escape": rt[0][1]})
    # S2: length form: writer short form for < 128; reader tests bit 0x80 and masks 0x7f
    wl = [c for c in compares(w, lambda e: isinstance(e, ast.Name) and "length" in e.id) if c[0] in ("Lt", "LtE")]
    rbit = [c for c, n in binops(r, ast.BitAnd) if c == 128]
    rcnt = [c for c, n in binops(r, ast.BitAnd) if c == 127]
    wbit = [c for c, n in binops(w, ast.BitOr) if c == 128]
    rindef = [c for c in compares(r, lambda e: isinstance(e, ast.Name)) if c[0] == "Eq" and c[1] == 128]
    if not wl:
        raise AnalysisError("length form test not found in the TLV packer")
    first_long = wl[0][1] if wl[0][0] == "Lt" else wl[0][1] + 1
    ok = first_long == 128 and bool(rbit) and bool(rcnt) and bool(wbit)
    ob("S2-length-form-threshold", ok, f"writer uses the long length form from {first_long}; reader tests bit {rbit[:1]} and counts with mask {rcnt[:1]}: expected 128/128/127",
       wl[0][2], w, {"writer_first_long_length": first_long})
    ok = bool(rindef)
    ob("S2-indefinite-length-rejected", ok, "reader no longer rejects the indefinite length octet 0x80", r.node, r, {"reader_rejects_0x80": ok})
    # long length octets: writer emits 8 bits per octet (mask 255, shift 8); reader shifts by 8 per octet
    wmask = [c for c, n in binops(w, ast.BitAnd) if c == 255]
    wsh = [c for c, n in binops(w, ast.RShift) if c == 8]
    rsh8 = [n for n in ast.walk(r.node) if isinstance(n, ast.BinOp) and isinstance(n.op, ast.LShift) and any(const_int(x) == 8 for x in ast.walk(n.right) if isinstance(x, ast.Constant))]
    r_frombytes = [n for n in ast.walk(r.node) if isinstance(n, ast.Call) and norm(n.func) == "int.from_bytes" and
                   any(isinstance(a, ast.Constant) and a.value == "big" for a in list(n.args) + [k.value for k in n.keywords]) and
                   not any(k.arg == "signed" and isinstance(k.value, ast.Constant) and k.value.value for k in n.keywords)]
    w_tobytes = [n for n in ast.walk(w.node) if isinstance(n, ast.Call) and isinstance(n.func, ast.Attribute) and n.func.attr == "to_bytes" and
                 any(isinstance(a, ast.Constant) and a.value == "big" for a in list(n.args) + [k.value for k in n.keywords])]
    rsh8 = rsh8 or [n for c, n in binops(r, ast.LShift) if c == 8]
    ok = ((bool(wmask) and bool(wsh)) or bool(w_tobytes)) and (bool(rsh8) or bool(r_frombytes))
    ob("S2-length-octet-width", ok, "writer/reader disagree on 8 bits per length octet", w.node, w, {"writer_mask255": bool(wmask), "writer_shift8": bool(wsh), "reader_shift8": bool(rsh8)})
    # S3: class / constructed bit positions
    wcls = [c for c, n in binops(w, ast.LShift) if c == 6]
    wcon = [c for c, n in binops(w, ast.LShift) if c == 5] + \
           [32 for n in ast.walk(w.node) if isinstance(n, ast.IfExp) and const_int(n.body) == 32 and const_int(n.orelse) == 0]
    rcls = [c for c, n in binops(r, ast.BitAnd) if c == 192]
    rclsh = [c for c, n in binops(r, ast.RShift) if c == 6]
    rcon = [c for c, n in binops(r, ast.BitAnd) if c == 32]
    # on a value known to be one octet the class is the octet shifted right by 6 (masking with 0xC0 first changes nothing), and
    # the constructed bit may be taken as bit 0 of the low six bits shifted right by 5
    rcls = rcls or rclsh
    rcon = rcon or ([c for c, n in binops(r, ast.RShift) if c == 5] and [c for c, n in binops(r, ast.BitAnd) if c in (63, 1)])
    ok = bool(wcls) and bool(wcon) and bool(rcls) and bool(rclsh) and bool(rcon)
    ob("S3-identifier-bit-fields", ok, "writer shifts (class<<6, constructed<<5) and reader masks (0xC0>>6, 0x20) do not agree", w.node, w,
       {"w_class_shift6": bool(wcls), "w_constructed_shift5": bool(wcon), "r_class_mask": bool(rcls), "r_class_shift": bool(rclsh), "r_constructed_mask": bool(rcon)})
    # S4: base-128 tag numbers
    w7 = [c for c, n in binops(wn, ast.BitAnd) if c == 127]
    wsh7 = [c for c, n in binops(wn, ast.RShift) if c == 7]
    wcont = [c for c, n in binops(wn, ast.BitOr) if c == 128]
    r7 = [c for c, n in binops(rn, ast.BitAnd) if c == 127]
    rsh7 = [c for c, n in binops(rn, ast.LShift) if c == 7]
    rcont = [c for c, n in binops(rn, ast.BitAnd) if c == 128]
    ok = all([w7, wsh7, wcont, r7, rsh7, rcont])
    ob("S4-base128-tag-number", ok, "writer and reader of multi-octet tag numbers disagree on 7 data bits + continuation bit", wn.node, wn,
       {"writer": [bool(w7), bool(wsh7), bool(wcont)], "reader": [bool(r7), bool(rsh7), bool(rcont)]})
    # S5: boolean constants
    wb = an.writer_helper.get("write_boolean")
    rb = an.reader_helper.get("read_boolean")
    if wb is None or rb is None:
        raise AnalysisError("boolean helpers not identified")
    # the octets may be chosen in the public method itself when the private helper was inlined into it
    wm = model.find_method("sansldap.asn1.ASN1Writer", "write_boolean")
    rm = model.find_method("sansldap.asn1.ASN1Reader", "read_boolean")

    class _Both:
        def __init__(self, a, b):
            self.node = ast.Module(body=[x.node for x in (a, b) if x is not None], type_ignores=[])
            self.qualname, self.module = a.qualname, a.module
    if wb is an.packer and wm is not None:
        wb = _Both(wm, None)
    elif wm is not None and not any(isinstance(n, ast.Constant) and isinstance(n.value, bytes) for n in ast.walk(wb.node)):
        wb = _Both(wb, wm)
    if rm is not None and not any(isinstance(n, ast.Compare) for n in ast.walk(rb.node)):
        rb = _Both(rb, rm)
    wconsts = sorted({n.value for n in ast.walk(wb.node) if isinstance(n, ast.Constant) and isinstance(n.value, bytes)})
    ok = wconsts == [b"\x00", b"\xff"]
    ife = [n for n in ast.walk(wb.node) if isinstance(n, ast.IfExp)]
    if ok and ife:
        ok = isinstance(ife[0].body, ast.Constant) and ife[0].body.value == b"\xff" and isinstance(ife[0].orelse, ast.Constant) and ife[0].orelse.value == b"\x00"
    ob("S5-boolean-octets", ok, f"BOOLEAN writer constants are {wconsts}, expected TRUE=FF / FALSE=00 chosen by the value's truth", wb.node, wb, {"writer_constants": [c.hex() for c in wconsts]})
    cmp = [n for n in ast.walk(rb.node) if isinstance(n, ast.Compare) and len(n.ops) == 1 and isinstance(n.comparators[0], ast.Constant) and isinstance(n.comparators[0].value, bytes)]
    ok = len(cmp) == 1 and isinstance(cmp[0].ops[0], ast.NotEq) and cmp[0].comparators[0].value == b"\x00"
    ob("S5-boolean-octets", ok, "BOOLEAN reader must decide truth as `content != b'\\x00'` (any non-zero octet is TRUE)", rb.node, rb, {"reader_test": norm(cmp[0]) if cmp else None})


MUTATORS = {"append", "extend", "insert", "clear", "pop", "remove", "reverse", "sort", "__setitem__", "__delitem__", "__iadd__", "release"}


def argument_mutation(model: Model, run: Run, fns) -> None:
    """A2: no function of asn1.py stores into, deletes from or calls a mutating method on one of its own parameters (self
    excepted).  Writing a value twice must produce the same octets, and a reader must leave the caller's buffer alone; an
    in-place edit of a caller-owned bytearray breaks both silently."""
    n = 0
    for fi in fns:
        ps = fi.params()
        if fi.cls and not fi.is_staticmethod:
            ps = ps[1:]
        ps = set(ps)
        rebound = {x.id for x in walk_no_nested(fi.node) if isinstance(x, ast.Name) and isinstance(x.ctx, ast.Store)}
        live = ps - rebound            # a parameter that is re-bound to a fresh local value is no longer the caller's object
        n += 1
        for x in walk_no_nested(fi.node):
            bad = None
            if isinstance(x, (ast.Subscript, ast.Attribute)) and isinstance(x.ctx, (ast.Store, ast.Del)) and isinstance(x.value, ast.Name) and x.value.id in live:
                bad = f"`{norm(x)}` is assigned/deleted"
            elif isinstance(x, ast.Call) and isinstance(x.func, ast.Attribute) and x.func.attr in MUTATORS and isinstance(x.func.value, ast.Name) and x.func.value.id in live:
                bad = f"`{norm(x)[:50]}` mutates the argument"
            elif isinstance(x, ast.AugAssign) and isinstance(x.target, ast.Name) and x.target.id in ps:
                an = next((norm(a.annotation) for a in fi.node.args.args + fi.node.args.kwonlyargs if a.arg == x.target.id and a.annotation is not None), "")
                if "bytearray" in an or "List" in an or "list" in an:
                    bad = f"`{norm(x)[:50]}` extends a mutable argument in place"
            if bad:
                run.ob("A2-no-argument-mutation", False, {"function": fi.name, "what": bad})
                run.fail(Finding("A2-no-argument-mutation", fi.qualname, norm(x)[:80], f"{fi.name}: {bad}: the caller's buffer is changed by encoding/decoding it", model.loc(fi.module, x)))
        run.ob("A2-no-argument-mutation", True)
    run.floor("asn1 functions checked for argument mutation", n, 30)


def writer_factories(model: Model, run: Run) -> None:
    """A subclass of ASN1Writer that overrides the flush (__exit__) or the buffer accessors assembles the nested TLV with
    code the flush rule (S6) does not look at: that is outside what this check can decide."""
    wq = f"{ASN1}.ASN1Writer"
    for cq in model.subclasses(wq, strict=True):
        for name in ("__exit__", "__enter__", "get_data"):
            own = model.classes[cq].methods.get(name)
            if own is not None:
                raise AnalysisError(f"{cq.split('.')[-1]} overrides ASN1Writer.{name}: the flush rules are written for the one implementation in ASN1Writer")


def must_pass(stmts: List[ast.stmt], hit) -> bool:
    """every path through `stmts` that returns or falls off the end has executed a statement/expression for which hit() holds
    (raising paths do not count; loops may run zero times; handlers start from the state before the try)"""
    def expr_hit(e) -> bool:
        return e is not None and any(hit(x) for x in ast.walk(e))

    def walk(block, done: bool):
        """-> (set of `done` values at the normal end, set of `done` values at returns)"""
        ends = {done}
        rets = set()
        for s_ in block:
            nxt = set()
            for d in ends:
                if isinstance(s_, ast.If):
                    d2 = d or expr_hit(s_.test)
                    for br in (s_.body, s_.orelse):
                        e_, r_ = walk(br, d2)
                        nxt |= e_
                        rets |= r_
                elif isinstance(s_, (ast.For, ast.While)):
                    d2 = d or expr_hit(s_.iter if isinstance(s_, ast.For) else s_.test)
                    e_, r_ = walk(s_.body, d2)
                    rets |= r_
                    e2, r2 = walk(s_.orelse, d2)
                    rets |= r2
                    nxt |= {d2} | e2 | (e_ if any(isinstance(x, ast.Break) for x in ast.walk(s_)) else set())
                elif isinstance(s_, ast.Try):
                    e_, r_ = walk(s_.body + s_.orelse, d)
                    rets |= r_
                    nxt |= e_
                    for h in s_.handlers:
                        eh, rh = walk(h.body, d)
                        nxt |= eh
                        rets |= rh
                    if s_.finalbody:
                        fin = set()
                        for x in nxt:
                            ef, rf = walk(s_.finalbody, x)
                            fin |= ef
                            rets |= rf
                        nxt = fin
                elif isinstance(s_, ast.With):
                    d2 = d or any(expr_hit(i.context_expr) for i in s_.items)
                    e_, r_ = walk(s_.body, d2)
                    nxt |= e_
                    rets |= r_
                elif isinstance(s_, ast.Return):
                    rets.add(d or expr_hit(s_.value))
                elif isinstance(s_, ast.Raise):
                    pass
                elif isinstance(s_, (ast.Break, ast.Continue)):
                    pass
                elif isinstance(s_, (ast.FunctionDef, ast.AsyncFunctionDef, ast.ClassDef)):
                    nxt.add(d)
                else:
                    nxt.add(d or any(hit(x) for x in ast.walk(s_)))
            ends = nxt
            if not ends:
                break
        return ends, rets
    e_, r_ = walk(stmts, False)
    return all(e_) and all(r_)


def writer_buffer(model: Model):
    """The attribute of self that ASN1Writer's write_* methods fill, and the private methods of the writer they fill it through
    (`self._append(octets)`): (buffer text, {helper name: FuncInfo})."""
    from collections import Counter
    wr = model.cls(f"{ASN1}.ASN1Writer")

    def extends(node):
        return [norm(c.func.value) for c in ast.walk(node) if isinstance(c, ast.Call) and isinstance(c.func, ast.Attribute) and c.func.attr in ("extend", "append")
                and norm(c.func.value).startswith("self.") and norm(c.func.value).count(".") == 1] + \
               [norm(a.target) for a in ast.walk(node) if isinstance(a, ast.AugAssign) and isinstance(a.op, ast.Add) and norm(a.target).startswith("self.") and norm(a.target).count(".") == 1]
    writers = [m_ for m_ in wr.methods.values() if m_.name.startswith("write_") and not isinstance(m_.node, ast.Lambda)]
    ext = Counter(x for m_ in writers for x in extends(m_.node))
    helpers = {}
    for m_ in writers:
        for c in ast.walk(m_.node):
            if isinstance(c, ast.Call) and isinstance(c.func, ast.Attribute) and isinstance(c.func.value, ast.Name) and c.func.value.id == "self" and c.func.attr.startswith("_") \
                    and not c.func.attr.startswith("__"):
                h = wr.methods.get(c.func.attr)
                if h is not None and not isinstance(h.node, ast.Lambda) and extends(h.node):
                    helpers[h.name] = h
                    for x in extends(h.node):
                        ext[x] += 1
    if not ext:
        raise AnalysisError("ASN1Writer.write_* methods do not extend an attribute of self")
    buf = ext.most_common(1)[0][0]
    helpers = {k: h for k, h in helpers.items() if buf in extends(h.node)}
    return buf, helpers


def writes_unconditional(model: Model, run: Run, rule: str = "S8-every-write-reaches-the-buffer") -> None:
    """S8: in ASN1Writer and every subclass of it, each write_* method adds to the writer's buffer (or hands over to another
    write_* of the same object) on every path that returns normally.  A write that can return without having written is a
    silently dropped value: the caller's message is encoded with a component missing."""
    wq = f"{ASN1}.ASN1Writer"
    wr = model.cls(wq)
    buf, helpers = writer_buffer(model)

    def hit(x) -> bool:
        if isinstance(x, ast.Call) and isinstance(x.func, ast.Attribute):
            if norm(x.func.value) == buf and x.func.attr in ("extend", "append", "__iadd__"):
                return True
            if isinstance(x.func.value, ast.Name) and x.func.value.id == "self" and x.func.attr in helpers:
                return True          # the helper is judged below, once, as a writer of its own
            if x.func.attr.startswith("write_") and (isinstance(x.func.value, ast.Name) and x.func.value.id == "self" or
                                                     isinstance(x.func.value, ast.Call) and norm(x.func.value.func) == "super"):
                return True
        if isinstance(x, ast.AugAssign) and norm(x.target) == buf and isinstance(x.op, ast.Add):
            return True
        return False
    n = 0
    for cq in model.subclasses(wq):
        for m_ in model.classes[cq].methods.values():
            if not (m_.name.startswith("write_") or m_.name in helpers) or isinstance(m_.node, ast.Lambda):
                continue
            n += 1
            ok = must_pass(m_.node.body, hit)
            run.ob(rule, ok, {"method": m_.qualname.split("sansldap.")[-1]})
            if not ok:
                run.fail(Finding(rule, m_.qualname, f"{m_.name}|no-write-path", f"{m_.qualname.split('sansldap.')[-1]} can return without adding anything to `{buf}`: "
                                 "the value handed to it is silently left out of the encoding", model.loc(m_.module, m_.node)))
    run.floor("write_* methods of the writer classes", n, 4)


def exit_does_not_swallow(model: Model, run: Run, rule: str = "S10-leaving-a-block-does-not-swallow-errors") -> None:
    """S10: __exit__ of a package class returns nothing (or a constant false value).  A true return value tells the `with`
    statement to suppress the exception in flight: a value that failed to encode inside a `with writer.push_sequence():`
    block would be dropped silently and the enclosing message emitted without it."""
    n = 0
    for cq, c in sorted(model.classes.items()):
        ex = c.methods.get("__exit__")
        if ex is None or isinstance(ex.node, ast.Lambda):
            continue
        n += 1
        seen = set()

        def truthy_returns(fi, depth=0):
            """returns of fi (followed through `return self.m()`) whose value may be true"""
            out = []
            if fi.qualname in seen or depth > 3:
                return out
            seen.add(fi.qualname)
            for r in walk_no_nested(fi.node):
                if not isinstance(r, ast.Return) or r.value is None:
                    continue
                v = r.value
                if isinstance(v, ast.Constant):
                    if v.value:
                        out.append((fi, r))
                    continue
                if isinstance(v, ast.Call) and isinstance(v.func, ast.Attribute) and isinstance(v.func.value, ast.Name) and v.func.value.id == "self":
                    mt = model.find_method(cq, v.func.attr)
                    if mt is not None and not isinstance(mt.node, ast.Lambda):
                        out += truthy_returns(mt, depth + 1)
                        continue
                if any(isinstance(x, ast.Name) and x.id in fi.params()[1:] for x in ast.walk(v)):
                    raise AnalysisError(f"{fi.qualname}: the value returned to the with statement depends on the exception passed in: not decided")
                out.append((fi, r))
            return out
        bad = truthy_returns(ex)
        run.ob(rule, not bad, {"class": cq.split("sansldap.")[-1]})
        for fi, r in bad[:2]:
            run.fail(Finding(rule, ex.qualname, f"{fi.name}|{norm(r)[:60]}", f"{cq.split('sansldap.')[-1]}.__exit__ can hand `{norm(r.value)[:50]}` back to the with statement"
                             f"{' (through ' + fi.name + ')' if fi is not ex else ''}: a true value suppresses the exception raised inside the block, so a failed write is silently left out",
                             model.loc(fi.module, r)))
    run.floor("context manager classes", n, 1)


def constructed_flush(model: Model, run: Run) -> None:
    writes_unconditional(model, run)
    exit_does_not_swallow(model, run)
    writer_factories(model, run)

    """S6: when a nested writer is closed, the packing routine receives the three fields of the tag the writer was opened
    with (each from the stored tag, matched to the routine's parameters by type) and the octets accumulated by the write_*
    calls, untouched.  A constant in place of a tag field, or contents that went through another function first, makes the
    emitted TLV differ from what the caller asked for."""
    from ..anchors import asn1 as asn1_anchors
    from ..resolve import Resolver
    an = asn1_anchors(model)
    ex = an.exit_method
    pk = an.packer_entry
    r = Resolver(model)
    calls = [c for c in walk_no_nested(ex.node) if isinstance(c, ast.Call) and isinstance(c.func, ast.Name) and model.resolve_name(ex.module, c.func.id) == pk.qualname]
    if len(calls) != 1:
        raise AnalysisError(f"{ex.qualname}: {len(calls)} calls of the packing routine {pk.name}")
    call = calls[0]
    binds = {}
    for a in walk_no_nested(ex.node):
        if isinstance(a, (ast.Assign, ast.AnnAssign)) and a.value is not None:
            for t_ in (a.targets if isinstance(a, ast.Assign) else [a.target]):
                if isinstance(t_, ast.Name):
                    binds.setdefault(t_.id, []).append(a.value)

    def origins(e: ast.expr, depth: int = 0) -> List[ast.expr]:
        if isinstance(e, ast.Name) and e.id in binds and depth < 4:
            return [o for b in binds[e.id] for o in origins(b, depth + 1)]
        if isinstance(e, ast.Attribute) and isinstance(e.value, ast.Name) and e.value.id in binds and depth < 4:
            return [ast.Attribute(value=o, attr=e.attr, ctx=ast.Load()) for b in binds[e.value.id] for o in origins(b, depth + 1)]
        return [e]
    # the buffer the write_* methods fill: the attribute of self that most of them extend
    buf, _helpers = writer_buffer(model)
    pparams = pk.node.args.posonlyargs + pk.node.args.args
    pairs = [(pparams[i], a) for i, a in enumerate(call.args) if i < len(pparams)] + [(p_, k.value) for k in call.keywords for p_ in pparams if p_.arg == k.arg]
    run.floor("arguments of the packing routine at the flush", len(pairs), 2)
    for p_, a in pairs:
        pt = r.anno(pk.module, p_.annotation)
        for o in origins(a):
            label = {"parameter": p_.arg, "argument": norm(o)[:60]}
            if pt in (("prim", "byteslike"), ("prim", "bytes"), ("prim", "bytearray"), ("prim", "memoryview")):
                ok = norm(o) == buf
                why = f"the contents handed to {pk.name} are `{norm(o)[:60]}`, not the octets the write_* calls accumulated in `{buf}`"
            elif pt[0] == "inst" and pt[1].endswith(".ASN1Tag"):
                # the routine takes the tag as one value: it must be the stored tag itself
                ft = r.strip_opt(r.type_of(o, ex)) if isinstance(o, ast.Attribute) else None
                ok = isinstance(o, ast.Attribute) and norm(o).startswith("self.") and ft == pt
                why = f"`{p_.arg}` of {pk.name} receives `{norm(o)[:60]}` instead of the tag the writer was opened with"
            else:
                ft = r.type_of(o, ex) if isinstance(o, ast.Attribute) else None
                src_is_tag = isinstance(o, ast.Attribute) and isinstance(o.value, ast.Attribute) and norm(o.value).startswith("self.")
                ok = bool(src_is_tag) and ft is not None and _compatible(r.strip_opt(ft), r.strip_opt(pt))
                why = f"`{p_.arg}` of {pk.name} receives `{norm(o)[:60]}` instead of the matching field of the tag the writer was opened with"
            run.ob("S6-constructed-value-flushed-as-written", ok, label)
            if not ok:
                run.fail(Finding("S6-constructed-value-flushed-as-written", ex.qualname, f"{p_.arg}={norm(o)[:60]}", f"ASN1Writer.{ex.name}: {why}", model.loc(ex.module, call)))


def _compatible(ft, pt) -> bool:
    if ft == pt:
        return True
    ints = (("prim", "int"),)
    def is_intlike(t_):
        return t_ in ints or (t_[0] == "inst" and t_[1].endswith("TypeTagNumber"))
    return is_intlike(ft) and is_intlike(pt)


def codec_parameters_are_used(model: Model, run: Run) -> None:
    """S12: every parameter of the reader / writer API methods (read_*, write_*, push_*) and of the module helpers they hand over to
    is read somewhere in the body - a `tag=` that is accepted and then dropped makes the call encode / expect the default tag.
    S13: every reader helper that takes a peeked header lets the header's own tag stand in when no explicit tag is given
    (`header.tag` is read where the expected tag is chosen, in the helper or in the helper it delegates that choice to): the
    read-by-header idiom `h = r.peek_header(); r.read_x(header=h)` depends on it for every non-universal tag."""
    from ..anchors import asn1 as asn1_anchors, reachable
    an = asn1_anchors(model)
    rd, wr = model.cls(f"{ASN1}.ASN1Reader"), model.cls(f"{ASN1}.ASN1Writer")
    api = [m for c in (rd, wr) for n_, m in c.methods.items() if n_.startswith(("read_", "write_", "push_")) and not isinstance(m.node, ast.Lambda)]
    helpers = {h.qualname: h for h in list(an.reader_helper.values()) + list(an.writer_helper.values())}
    n = 0
    for fi in api + list(helpers.values()):
        a = fi.node.args
        ps = [x.arg for x in a.posonlyargs + a.args + a.kwonlyargs if x.arg not in ("self", "cls")]
        loads = {x.id for x in ast.walk(fi.node) if isinstance(x, ast.Name) and isinstance(x.ctx, ast.Load)}
        for p_ in ps:
            n += 1
            ok = p_ in loads
            run.ob("S12-codec-parameters-are-used", ok, {"function": fi.qualname.split("sansldap.")[-1], "parameter": p_})
            if not ok:
                run.fail(Finding("S12-codec-parameters-are-used", fi.qualname, f"{fi.name}|{p_}", f"{fi.qualname.split('sansldap.')[-1]} accepts `{p_}` and never reads it: what the caller asked for "
                                 "is silently replaced by the default", model.loc(fi.module, fi.node)))
    run.floor("codec API parameters", n, 40)
    # S13
    memo = {}

    def uses_header_tag(fi, depth=0) -> bool:
        if fi.qualname in memo:
            return memo[fi.qualname]
        memo[fi.qualname] = False
        hp = [x.arg for x in fi.node.args.posonlyargs + fi.node.args.args + fi.node.args.kwonlyargs if x.annotation is not None and norm(x.annotation).endswith("ASN1Header]")
              or x.annotation is not None and norm(x.annotation).endswith("ASN1Header")]
        ok = False
        for h_ in hp:
            if any(isinstance(x, ast.Attribute) and x.attr == "tag" and isinstance(x.value, ast.Name) and x.value.id == h_ for x in ast.walk(fi.node)):
                ok = True
            # the choice is delegated: header handed to a module helper (not the validating helper) that reads header.tag
            for c in ast.walk(fi.node):
                if isinstance(c, ast.Call) and depth < 4 and any(isinstance(a_, ast.Name) and a_.id == h_ for a_ in list(c.args) + [k.value for k in c.keywords]):
                    g = None
                    if isinstance(c.func, ast.Name):
                        q = model.resolve_name(fi.module, c.func.id)
                        g = model.functions.get(q) if q else None
                    elif isinstance(c.func, ast.Attribute) and isinstance(c.func.value, ast.Name) and c.func.value.id == "self" and fi.cls:
                        g = model.find_method(fi.cls, c.func.attr)
                    elif isinstance(c.func, ast.Attribute) and isinstance(c.func.value, ast.Name):
                        q = model.resolve_name(fi.module, norm(c.func))
                        g = model.functions.get(q) if q else None
                    # a function handed over next to the header (`self._read_next(_read_asn1_integer, tag, header, hint)`) is what the callee
                    # applies to it
                    for a_ in list(c.args) + [k.value for k in c.keywords]:
                        if isinstance(a_, ast.Name) and a_.id != h_:
                            q2 = model.resolve_name(fi.module, a_.id)
                            g2 = model.functions.get(q2) if q2 else None
                            if g2 is not None and g2 is not an.validate and not isinstance(g2.node, ast.Lambda) and uses_header_tag(g2, depth + 1):
                                ok = True
                    if g is not None and g is not an.validate and not isinstance(g.node, ast.Lambda) and uses_header_tag(g, depth + 1):
                        ok = True
        memo[fi.qualname] = ok
        return ok
    # the obligation is per read_* method: somewhere between the method and the validating helper (the method itself, a private
    # method it hands the header to, the module helper) `header.tag` is read
    seen = set()
    for name, m_ in sorted(rd.methods.items()):
        if not name.startswith("read_") or isinstance(m_.node, ast.Lambda) or m_.qualname in seen:
            continue
        seen.add(m_.qualname)
        takes_header = any(x.annotation is not None and "ASN1Header" in norm(x.annotation) for x in m_.node.args.posonlyargs + m_.node.args.args + m_.node.args.kwonlyargs)
        if not takes_header:
            continue
        ok = uses_header_tag(m_)
        # ... and the choice is live: the method's own `tag` parameter defaults to None ("not given"), so that a read by header alone
        # reaches the place where header.tag is taken
        a__ = m_.node.args
        pos__ = a__.posonlyargs + a__.args
        dfl__ = dict(zip([p_.arg for p_ in pos__][len(pos__) - len(a__.defaults):], a__.defaults))
        dfl__.update({p_.arg: d_ for p_, d_ in zip(a__.kwonlyargs, a__.kw_defaults) if d_ is not None})
        if ok and "tag" in dfl__ and not (isinstance(dfl__["tag"], ast.Constant) and dfl__["tag"].value is None):
            run.ob("S13-header-tag-stands-in-for-the-default", False, {"method": m_.name, "tag_default": norm(dfl__["tag"])[:40]})
            run.fail(Finding("S13-header-tag-stands-in-for-the-default", m_.qualname, f"{m_.name}|tag={norm(dfl__['tag'])[:40]}",
                             f"{m_.name} declares `tag={norm(dfl__['tag'])[:50]}`: with a default that is never None the helper's `header.tag if header else ...` is dead, and a "
                             "value read by its peeked header alone is checked against the universal tag instead of its own", model.loc(m_.module, m_.node)))
            continue
        run.ob("S13-header-tag-stands-in-for-the-default", ok, {"method": m_.name})
        if not ok:
            run.fail(Finding("S13-header-tag-stands-in-for-the-default", m_.qualname, f"{m_.name}|header.tag", f"{m_.name} takes a peeked header but never lets `header.tag` be the expected tag: reading a "
                             "non-universally tagged value by its header alone is rejected although its sibling readers accept it", model.loc(m_.module, m_.node)))


def integer_contents_are_signed(model: Model, run: Run, rule: str = "S11-integer-contents-read-as-twos-complement") -> None:
    """S11: the content octets of INTEGER and ENUMERATED are two's complement, and the writer packs both with the same
    routine.  On the read side the ENUMERATED helper therefore hands over to the INTEGER helper (or decodes the same way),
    and any `int.from_bytes` applied to content octets says signed=True.  An unsigned read turns every negative value the
    writer can emit (and every value the peer sends with the top bit set) into a different number."""
    from ..anchors import asn1 as asn1_anchors, reachable
    an = asn1_anchors(model)
    hi = an.reader_helper.get("read_integer")
    he = an.reader_helper.get("read_enumerated")
    if hi is None or he is None:
        raise AnalysisError("read_integer / read_enumerated helpers not identified")
    header_side = {f.qualname for f in an.header_family} | {an.validate.qualname}
    n = 0
    for entry in (hi, he):
        for f in reachable(model, entry):
            if f.qualname in header_side or isinstance(f.node, ast.Lambda):
                continue
            for x in walk_no_nested(f.node):
                if isinstance(x, ast.Call) and norm(x.func) == "int.from_bytes":
                    n += 1
                    signed = any(k.arg == "signed" and isinstance(k.value, ast.Constant) and k.value.value is True for k in x.keywords) or \
                        (len(x.args) >= 3 and isinstance(x.args[2], ast.Constant) and x.args[2].value is True)
                    if not signed:
                        # ... or the sign is dealt with by hand around an unsigned read of the magnitude: the top bit of the first octet is
                        # tested, and the result is negated (or has 2**n subtracted) on that path
                        tests_top_bit = any(isinstance(y, ast.BinOp) and isinstance(y.op, ast.BitAnd) and
                                            any(isinstance(z, ast.Constant) and z.value in (0x80, 128) for z in (y.left, y.right)) and
                                            any(isinstance(z, ast.Subscript) and isinstance(z.slice, ast.Constant) and z.slice.value == 0 for z in (y.left, y.right))
                                            for y in walk_no_nested(f.node)) or \
                            any(isinstance(y, ast.Compare) and isinstance(y.left, ast.Subscript) and isinstance(y.left.slice, ast.Constant) and y.left.slice.value == 0 and
                                isinstance(y.comparators[0], ast.Constant) and y.comparators[0].value in (127, 128, 0x7F, 0x80) for y in walk_no_nested(f.node))
                        negates = any((isinstance(y, ast.AugAssign) and isinstance(y.op, ast.Mult) and isinstance(y.value, (ast.UnaryOp, ast.Constant)) and
                                       (norm(y.value) in ("-1", "(-1)"))) or
                                      (isinstance(y, ast.UnaryOp) and isinstance(y.op, ast.USub) and not isinstance(y.operand, ast.Constant)) or
                                      (isinstance(y, (ast.AugAssign, ast.BinOp)) and isinstance(y.op, ast.Sub) and
                                       any(isinstance(z, ast.BinOp) and isinstance(z.op, (ast.LShift, ast.Pow)) for z in ast.walk(y)))
                                      for y in walk_no_nested(f.node))
                        signed = tests_top_bit and negates
                    run.ob(rule, signed, {"function": f.name, "call": norm(x)[:60]})
                    if not signed:
                        run.fail(Finding(rule, f.qualname, norm(x)[:80], f"{f.name} reads content octets with `{norm(x)[:60]}` (unsigned): a value whose first content octet has the top bit set "
                                         "is negative in BER, and is what the writer emits for negative numbers; it decodes to a different number", model.loc(f.module, x)))
    # sibling agreement: the writer packs ENUMERATED through the INTEGER routine; the reader must mirror that or be seen to decode signed
    wi, we = an.writer_helper.get("write_integer"), an.writer_helper.get("write_enumerated")
    writer_shares = wi is not None and we is not None and (we is wi or wi in reachable(model, we))
    reader_shares = he is hi or hi in reachable(model, he)
    own_signed = any(isinstance(x, ast.Call) and norm(x.func) == "int.from_bytes" for f in reachable(model, he) if f.qualname not in header_side for x in walk_no_nested(f.node))
    ok = reader_shares or own_signed or not writer_shares
    if not ok:
        raise AnalysisError(f"{he.name} neither hands over to {hi.name} nor uses int.from_bytes: a hand-written ENUMERATED decoder is outside what S11 can judge")
    run.ob(rule, True, {"enumerated_reader_shares_integer_reader": reader_shares, "writer_shares": writer_shares})
    run.coverage["int_from_bytes_on_contents"] = n
    # the handover is a plain one: ENUMERATED contents are INTEGER contents, so the ENUMERATED routine asks the INTEGER routine for
    # nothing the INTEGER API itself does not ask for - a parameter pinned to a constant other than its default (signed=False,
    # minimal=False ...) makes the two kinds decode / encode the same octets differently
    for src, dst, side in ((he, hi, "reader"), (we, wi, "writer")):
        if src is None or dst is None or src is dst:
            continue
        a = dst.node.args
        pos = a.posonlyargs + a.args
        dfl = {p_.arg: d_ for p_, d_ in zip(pos[len(pos) - len(a.defaults):], a.defaults)}
        dfl.update({p_.arg: d_ for p_, d_ in zip(a.kwonlyargs, a.kw_defaults) if d_ is not None})
        names = [p_.arg for p_ in pos]
        for f in reachable(model, src):
            if isinstance(f.node, ast.Lambda) or f is dst:
                continue
            for c in walk_no_nested(f.node):
                if not (isinstance(c, ast.Call) and isinstance(c.func, ast.Name) and model.resolve_name(f.module, c.func.id) == dst.qualname):
                    continue
                bound = dict(zip(names, c.args))
                bound.update({k.arg: k.value for k in c.keywords if k.arg})
                for pn, v in bound.items():
                    d_ = dfl.get(pn)
                    if isinstance(v, ast.Constant) and isinstance(d_, ast.Constant) and type(v.value) in (bool, int, type(None)) and v.value != d_.value:
                        run.ob(rule, False, {"handover": f"{f.name} -> {dst.name}", "parameter": pn})
                        run.fail(Finding(rule, f.qualname, f"{dst.name}({pn}={norm(v)})", f"the ENUMERATED {side} hands over to the INTEGER {side} with `{pn}={norm(v)}` where INTEGER itself uses "
                                         f"`{pn}={norm(d_)}`: the same content octets mean one number as an INTEGER and another as an ENUMERATED, although both are written by "
                                         "the same two's-complement routine", model.loc(f.module, c)))
                    else:
                        run.ob(rule, True, {"handover": f"{f.name} -> {dst.name}", "parameter": pn})


def hand_built_integer_content(model: Model, run: Run, mr) -> None:
    """S7: on the INTEGER / ENUMERATED write paths, content octets that are not produced by the two's-complement routine but
    built by hand (`bytes((v,))`, `bytes([v])`, `v.to_bytes(k, ...)`) are correct only if v is known to fit: one octet holds
    -128..127, so an unsigned shortcut must be guarded by v <= 127 (k octets: v < 2**(8k-1)), and k must be minimal."""
    from ..anchors import asn1 as asn1_anchors, reachable
    from ..facts import FactFlow
    an = asn1_anchors(model)
    wr = model.cls(f"{ASN1}.ASN1Writer")
    fam = {}
    for mname in ("write_integer", "write_enumerated"):
        m_ = wr.methods.get(mname)
        if m_ is None:
            raise AnalysisError(f"ASN1Writer.{mname} not found")
        fam[m_.qualname] = m_
        h = an.writer_helper.get(mname)
        for f in ([h] + reachable(model, h) if h is not None else []):
            if f not in an.packer_family or f is h:
                fam[f.qualname] = f
    n = 0
    for fq, fi in fam.items():
        ps = [p_ for p_ in fi.params() if p_ not in ("self", "tag")]
        fl = mr.flow_for(fi)
        for x in walk_no_nested(fi.node):
            elems, k, signed = None, 1, False
            if isinstance(x, ast.Call) and isinstance(x.func, ast.Name) and x.func.id in ("bytes", "bytearray") and len(x.args) == 1 and isinstance(x.args[0], (ast.Tuple, ast.List)):
                elems = list(x.args[0].elts)
            elif isinstance(x, ast.Call) and isinstance(x.func, ast.Attribute) and x.func.attr == "to_bytes" and isinstance(x.func.value, ast.Name):
                elems = [x.func.value]
                ka = x.args[0] if x.args else next((kw.value for kw in x.keywords if kw.arg == "length"), None)
                k = ka.value if isinstance(ka, ast.Constant) and isinstance(ka.value, int) else None
                signed = any(kw.arg == "signed" and isinstance(kw.value, ast.Constant) and kw.value.value is True for kw in x.keywords)
            if not elems:
                continue
            vals = [e_ for e_ in elems if any(isinstance(y, ast.Name) and y.id in ps for y in ast.walk(e_))]
            if not vals:
                continue
            n += 1
            facts = fl.facts_at.get(id(x), frozenset())
            ok, why = True, ""
            if k is None:
                # a computed octet count: correct exactly when it is the minimal count - the same criterion as Engine C's
                # to_bytes rule (`k` defined as (v.bit_length() + 7) // 8 for v >= 0), and then only for an unsigned reading,
                # so INTEGER content additionally needs the value's top bit clear: not decidable from a count picked by
                # thresholds; reported unless the routine is the two's-complement one itself
                if isinstance(x.func, ast.Attribute) and x.func.attr == "to_bytes":
                    okb, whyb = mr.to_bytes_ok(x, facts if (facts := fl.facts_at.get(id(x), frozenset())) is not None else frozenset(), fi)
                    run.ob("S7-hand-built-integer-content-fits", False if not okb else True, {"function": fi.name, "expression": norm(x)[:60]})
                    if not okb:
                        run.fail(Finding("S7-hand-built-integer-content-fits", fq, norm(x)[:80],
                                         f"{fi.name} builds INTEGER/ENUMERATED content with `{norm(x)[:60]}`, an octet count that is not shown to be the minimal "
                                         f"two's-complement one ({whyb}); the sign octet is missing for values whose top bit is set", model.loc(fi.module, x)))
                continue
            if len(vals) != 1 or (len(elems) != k and not isinstance(x.func, ast.Attribute)):
                ok, why = False, "content assembled from several hand-picked octets"
            else:
                lo, hi = mr.ival(vals[0], facts, fi)
                top = 2 ** (8 * k - 1) - 1
                bottom = -(2 ** (8 * k - 1)) if signed else 0
                need_lo = bottom if k == 1 else (2 ** (8 * (k - 1) - 1))        # k > 1 octets are minimal only above the (k-1)-octet range
                if not (lo >= need_lo and hi <= top):
                    ok = False
                    why = (f"`{norm(vals[0])}` is in [{lo}, {hi}] here but {k} content octet(s) of two's complement hold "
                           f"{bottom}..{top}" + ("" if k == 1 else f" and are minimal only from {need_lo}"))
            run.ob("S7-hand-built-integer-content-fits", ok, {"function": fi.name, "expression": norm(x)[:60]})
            if not ok:
                run.fail(Finding("S7-hand-built-integer-content-fits", fq, norm(x)[:80],
                                 f"{fi.name} builds INTEGER/ENUMERATED content octets by hand with `{norm(x)[:60]}`: {why}; the value read back differs "
                                 "(e.g. 200 written as C8 is -56) or the encoding is not minimal", model.loc(fi.module, x)))
    run.coverage["hand_built_integer_contents"] = n
    run.ob("S7-hand-built-integer-content-fits", True, {"functions": sorted(q.split(".")[-1] for q in fam)})


def reader_construction_total(model: Model, run: Run, mr) -> None:
    """A3: building an ASN1Reader (which read_sequence / read_set do for every constructed value) cannot fail: any nesting the
    writer can produce must be readable."""
    init = model.find_method(f"{ASN1}.ASN1Reader", "__init__")
    if init is None:
        raise AnalysisError("ASN1Reader.__init__ not found")
    esc = mr.escapes(init.qualname, f"{ASN1}.ASN1Reader")
    ok = not esc
    run.ob("A3-reader-construction-cannot-fail", ok, {"escapes": [e.short() for e in sorted(esc, key=str)][:4]})
    if not ok:
        e0 = sorted(esc, key=str)[0]
        run.fail(Finding("A3-reader-construction-cannot-fail", init.qualname, f"{e0.exc.split('.')[-1]}|{e0.text[:60]}",
                         f"ASN1Reader.__init__ can raise {e0.exc.split('.')[-1]} (`{e0.text[:60]}`): some value the writer produces (deep nesting, large content) "
                         "can then not be read back", f"{model.relpath(ASN1)}:{e0.line}"))
