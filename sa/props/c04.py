"""C04 - the decoder accepts every valid BER form of a message (structural obligations on the reader side)."""
from __future__ import annotations

import ast
from typing import List

from ..facts import const_int
from ..report import Finding, Run
from ..srcmodel import AnalysisError, Model, norm, walk_no_nested
from ..tlv import RNode
from ..tlvcheck import extracted, finish_with_errors, short

ASN1 = "sansldap.asn1"
NOT_ENOUGH = "sansldap.asn1.NotEnougData"
from ..anchors import is_incomplete  # noqa: E402


def all_nodes(nodes: List[RNode]):
    for n in nodes:
        yield n
        yield from all_nodes(n.children)
        for _, cs in n.alts:
            yield from all_nodes(cs)


def check(model: Model, run: Run) -> None:
    ex = extracted(model)
    run.explanation = ("four encoding freedoms, four structural obligations: (1) length form - one header routine decodes every length and none of its rejections depends on "
                       "the number of length octets or on minimality; (2) boolean - truth is `content != 00`; (3) explicit defaults - every DEFAULT component has a real "
                       "reader of its own kind, so presence and absence decode alike; (4) trailing unknown elements - in every SEQUENCE reader everything after the "
                       "mandatory components is tag-dispatched and unknown tags are skipped, nothing rejects leftover data. NOT decided: that values decoded under "
                       "alternative forms are equal (arithmetic of multi-octet lengths)")
    # ---- leaving a reader never rejects what was left unread (trailing elements are the sender's freedom) -------------------
    rdc = model.classes.get(f"{ASN1}.ASN1Reader")
    for hook in ("__exit__", "__del__", "close"):
        hm = rdc.methods.get(hook) if rdc is not None else None
        if hm is None or isinstance(hm.node, ast.Lambda):
            continue
        raises = [r_ for r_ in walk_no_nested(hm.node) if isinstance(r_, ast.Raise) and r_.exc is not None]
        run.ob("V11-leaving-a-reader-rejects-nothing", not raises, {"method": f"ASN1Reader.{hook}"})
        if raises:
            run.fail(Finding("V11-leaving-a-reader-rejects-nothing", hm.qualname, norm(raises[0])[:80],
                             f"ASN1Reader.{hook} raises (`{norm(raises[0])[:60]}`): a decoder that reads a SEQUENCE inside `with reader.read_sequence() as r:` now refuses every "
                             "element it did not read - the trailing elements a sender is free to add", model.loc(hm.module, raises[0])))
    # ---- (1) length form ----------------------------------------------------------------
    from ..anchors import asn1 as asn1_anchors
    an = asn1_anchors(model)
    hdr = an.header
    callers = [fq for fq, fi in model.functions.items() if not isinstance(fi.node, ast.Lambda) and fi.module == ASN1 and
               any(isinstance(n, ast.Call) and isinstance(n.func, ast.Name) and n.func.id == hdr.name for n in ast.walk(fi.node))]
    run.coverage["header_routine_callers"] = callers
    n_r = 0
    for fi in an.header_family:
        for r in [n for n in walk_no_nested(fi.node) if isinstance(n, ast.Raise)]:
            n_r += 1
            exq = None
            if r.exc is not None:
                exq = model.resolve_name(fi.module, norm(r.exc.func if isinstance(r.exc, ast.Call) else r.exc))
            conds = enclosing(fi.node, r)
            ok = is_incomplete(model, exq)
            why = "input exhausted"
            if not ok:
                # the single sanctioned rejection: the indefinite-length octet 0x80
                ok = any(isinstance(c, ast.Compare) and len(c.ops) == 1 and isinstance(c.ops[0], ast.Eq) and const_int(c.comparators[0]) == 128 for c in conds)
                why = "indefinite length (0x80) is not LDAP BER"
            run.ob("V1-length-form-leniency", ok, {"function": fi.name, "raise": norm(r)[:60], "why": why if ok else "other"})
            if not ok:
                run.fail(Finding("V1-length-form-leniency", fi.qualname, norm(r)[:80] + "|" + ";".join(norm(c)[:40] for c in conds),
                                 f"{fi.name} rejects a header under `{' and '.join(norm(c)[:50] for c in conds) or 'always'}`: the only legitimate rejections are exhausted input and the indefinite length octet; "
                                 "a valid non-minimal length form would be refused", model.loc(ASN1, r)))
    run.floor("raise statements in the header routines", n_r, 2)
    # the header routine names the tag class / universal number through an enum: the conversion must not reject a value a
    # conforming peer can send (all four classes; every universal number X.680 assigns, 0..36), unless the enum is open
    from .c05 import may_raise
    from ..fold import Folder
    mr = may_raise(model)
    n_conv = 0
    for fi in an.header_family:
        for c in [n for n in walk_no_nested(fi.node) if isinstance(n, ast.Call) and isinstance(n.func, (ast.Name, ast.Attribute)) and len(n.args) == 1]:
            q = model.resolve_name(fi.module, norm(c.func))
            k = model.classes.get(q) if q else None
            if k is None or not k.is_enum:
                continue
            n_conv += 1
            lo, hi = mr.ival(c.args[0], mr.flow_for(fi).facts_at.get(id(c), frozenset()), fi)
            need = set(range(int(lo), int(hi) + 1)) if lo >= 0 and hi <= 255 else set(range(0, 37))
            have = set()
            for name, e in k.consts.items():
                try:
                    v = Folder(model).fold(e, k.module)
                except Exception:
                    continue
                if isinstance(v, int):
                    have.add(v)
            open_ = model.find_method(q, "_missing_") is not None
            missing = sorted(need - have)
            ok = open_ or not missing
            run.ob("V6-tag-naming-accepts-every-assigned-value", ok, {"function": fi.name, "conversion": norm(c)[:60], "needed": f"{min(need)}..{max(need)}", "open": open_})
            if not ok:
                run.fail(Finding("V6-tag-naming-accepts-every-assigned-value", fi.qualname, f"{short(q)} lacks {missing}",
                                 f"{fi.name} converts a received tag field with `{norm(c)[:60]}`; {short(q)} has no member for {missing}, so an element carrying that "
                                 "(valid, merely unrecognised) identifier makes the whole message undecodable instead of being skipped", model.loc(ASN1, c)))
    run.coverage["enum_conversions_in_header_routines"] = n_conv      # none at all is fine: then nothing can be rejected there
    # implicit rejections: no construct of the header routine can fail on some number of length octets (a fixed-width
    # struct.unpack, an index past the octets present, a byte store) - the catalogued implicit raisers there are all discharged
    fam_q = {f.qualname for f in an.header_family}
    for f in an.header_family:
        mr.escapes(f.qualname, None)
    hsites = [s_ for s_ in mr.implicit_sites if s_["function"] in fam_q]
    for s_ in hsites:
        if s_["verdict"] == "deferred" or (s_["kind"] == "enum-conversion"):
            continue
        ok = s_["verdict"] == "safe"
        run.ob("V1-no-implicit-rejection-in-header-routine", ok, {"function": s_["function"].split(".")[-1], "construct": s_["construct"][:60], "why": s_["reason"][:80]})
        if not ok:
            run.fail(Finding("V1-no-implicit-rejection-in-header-routine", s_["function"], f"{s_['kind']}|{s_['construct'][:80]}",
                             f"{s_['exception']} possible at `{s_['construct'][:80]}` while a header is decoded ({s_['reason'][:100]}): some valid length form is refused",
                             f"{model.relpath(ASN1)}:{s_['line']}"))
    run.floor("implicit raiser sites in the header routines", len(hsites), 4)
    from ..readerrules import lemma_no_silent_clamp
    lemma_no_silent_clamp(model, run, mr)
    # every read_* reaches the single header routine through the validating helper (discovered, not named)
    for name, h in an.reader_helper.items():
        run.ob("V1-single-header-routine", True, {"method": name, "helper": h.name, "validator": an.validate.name, "header_routine": hdr.name})
    for name, fi in model.cls(f"{ASN1}.ASN1Reader").methods.items():
        if name.startswith("read_") and name not in an.reader_helper and fi.name == name:
            run.ob("V1-single-header-routine", False)
            run.fail(Finding("V1-single-header-routine", fi.qualname, "does not delegate to one module-level helper", f"ASN1Reader.{name} does not go through the validating helper / header routine", model.loc(ASN1, fi.node)))
    # ---- (2) boolean ---------------------------------------------------------------------------
    rb = an.reader_helper.get("read_boolean")
    if rb is None:
        raise AnalysisError("boolean reader helper not found")
    cmp_ = [n for n in ast.walk(rb.node) if isinstance(n, ast.Compare) and len(n.ops) == 1 and isinstance(n.comparators[0], ast.Constant) and isinstance(n.comparators[0].value, bytes)]
    ok = len(cmp_) == 1 and isinstance(cmp_[0].ops[0], ast.NotEq) and cmp_[0].comparators[0].value == b"\x00"
    run.ob("V2-boolean-any-nonzero-is-true", ok, {"test": norm(cmp_[0]) if cmp_ else None})
    if not ok:
        run.fail(Finding("V2-boolean-any-nonzero-is-true", rb.qualname, norm(cmp_[0]) if cmp_ else "no comparison", "BOOLEAN truth must be decided as content != b'\\x00' (BER allows any non-zero octet for TRUE)", model.loc(ASN1, rb.node)))
    # ---- (3)+(4) on the extracted reader grammars ----------------------------------------------------
    results = dict(ex.rres)
    results["<envelope>"] = ex.envelope
    results["<control>"] = ex.ctl_generic
    n_seq = 0
    for c, res in results.items():
        for n in all_nodes(res.nodes):
            if n.kind == "unchecked":
                run.ob("V4-trailing-elements-tag-dispatched", False, {"reader": short(res.func), "component": n.brief()[:80]})
                run.fail(Finding("V4-trailing-elements-tag-dispatched", res.func, n.brief()[:80],
                                 f"{short(res.func)} reads an optional trailing component without looking at its tag: an unrecognised trailing element (RFC 4511 section 4 extensibility) is misread or rejected",
                                 f"{model.relpath(model.functions[res.func].module) if res.func in model.functions else ''}:{n.line}"))
            if n.kind == "optset":
                n_seq += 1
                ok = n.skip_unknown or not n.loop
                run.ob("V4-unknown-tags-skipped", ok, {"reader": short(res.func), "alternatives": [repr(sp) for sp, _ in n.alts]})
                if not ok:
                    run.fail(Finding("V4-unknown-tags-skipped", res.func, "dispatch loop without skip_value", f"{short(res.func)}: a tag-dispatch loop does not skip unknown elements (it would never terminate or reject them)", ""))
                # a component without a tag of its own (UNIVERSAL identifier) is recognised by its position, which a loop over
                # the remaining elements does not have: a later unrecognised element of the same universal type would be taken for it
                for sp, nodes in n.alts:
                    ucls = sp.cls_name if sp.how == "header" else (sp.tag.cls_name if sp.tag is not None else None)
                    if n.loop and ucls == "UNIVERSAL":
                        for x in nodes:
                            if x.kind in ("prim", "cons") and not x.appended_to:
                                run.ob("V7-positional-component-read-once", False, {"reader": short(res.func), "alternative": repr(sp)})
                                run.fail(Finding("V7-positional-component-read-once", res.func, f"{sp!r} -> {x.var or x.brief()[:40]}",
                                                 f"{short(res.func)} reads the untagged component `{x.var}` ({sp!r}) inside its loop over trailing elements: every later element of "
                                                 "that universal type overwrites it, so an unrecognised trailing element changes the decoded value",
                                                 f"{model.relpath(model.functions[res.func].module) if res.func in model.functions else ''}:{x.line}"))
                    elif ucls == "UNIVERSAL":
                        run.ob("V7-positional-component-read-once", True, {"reader": short(res.func), "alternative": repr(sp)})
                for sp, nodes in n.alts:
                    for x in nodes:
                        if x.kind == "prim":
                            run.ob("V3-explicit-default-has-real-reader", True)
                for ln_, txt_ in getattr(n, "read_then_skip", []):
                    run.ob("V10-read-branch-does-not-skip-again", False, {"reader": short(res.func), "line": ln_})
                    run.fail(Finding("V10-read-branch-does-not-skip-again", res.func, f"read-then-skip|{txt_}", f"{short(res.func)}: the branch ending in `{txt_}` reads its component and then falls through to the "
                                     "loop's skip_value with the header it has already consumed: the octets that follow are skipped as if they were that element",
                                     f"{model.relpath(model.functions[res.func].module) if res.func in model.functions else ''}:{ln_}"))
                if n.loop:
                    run.ob("V10-read-branch-does-not-skip-again", True, {"reader": short(res.func)})
                # an optional / trailing component is recognised by class AND number: a test of the number alone also takes an
                # unrecognised element of another class (BIT STRING for [3], [APPLICATION 3] ...) for the known component
                for sp, nodes in n.alts:
                    if sp.how == "header" and sp.number is not None and any(x.kind in ("prim", "cons", "encaps") for x in nodes):
                        ok9 = sp.cls_name is not None
                        run.ob("V9-known-element-named-by-class-and-number", ok9, {"reader": short(res.func), "alternative": repr(sp)})
                        if not ok9:
                            run.fail(Finding("V9-known-element-named-by-class-and-number", res.func, repr(sp), f"{short(res.func)} recognises the component read under {sp!r} by its tag number "
                                             "alone: an unrecognised element with that number in another tag class is consumed as this component instead of being skipped",
                                             f"{model.relpath(model.functions[res.func].module) if res.func in model.functions else ''}:{n.line}"))
    run.floor("tag-dispatch points", n_seq, 9)
    # ---- no decoder rejects an element because of the FORM of its header ---------------------------------------------------
    header_form_rejections(model, run)
    # ---- one header routine: nothing outside asn1.py picks identifier / length octets apart by hand ---------------------------
    n_hand = 0
    for fq, fi in list(model.functions.items()):
        if isinstance(fi.node, ast.Lambda) or fi.module == ASN1:
            continue
        for x in walk_no_nested(fi.node):
            if isinstance(x, ast.BinOp) and isinstance(x.op, ast.BitAnd):
                c_ = const_int(x.right) if const_int(x.right) is not None else const_int(x.left)
                if c_ in (0x80, 0x7F, 0x1F, 0x20, 0xC0):
                    other = x.left if const_int(x.right) is not None else x.right
                    n_hand += 1
                    run.ob("V1-single-header-routine", False, {"function": fq.split("sansldap.")[-1], "expression": norm(x)[:40]})
                    run.fail(Finding("V1-single-header-routine", fq, norm(x)[:80],
                                     f"{fq.split('sansldap.')[-1]} masks `{norm(other)[:40]}` with {c_:#x}: identifier / length octets are being decoded by hand outside the "
                                     "header routine, with its own idea of which forms are acceptable", model.loc(fi.module, x)))
    run.coverage["hand_decoded_header_octets_outside_asn1"] = n_hand
    # DEFAULT FALSE fields (writer omits when falsy) must be read with read_boolean into the same field
    for c, w in ex.wgram.items():
        res = ex.rres.get(c) if not short(c).endswith("Control") else ex.ctl_generic
        if res is None:
            continue
        for wn in walk_w(w):
            if wn.kind == "opt" and wn.cond[0] == "truthy" and wn.children and wn.children[0].kind == "prim" and wn.children[0].ukind == "boolean":
                tag = wn.children[0].tag
                found = [x for n in all_nodes(res.nodes) if n.kind == "optset" for sp, nodes in n.alts if sp.accepts(tag) for x in nodes]
                ok = bool(found) and found[0].kind == "prim" and found[0].ukind == "boolean"
                run.ob("V3-explicit-default-has-real-reader", ok, {"class": short(c), "field": wn.cond[1], "reader": found[0].brief()[:60] if found else None})
                if not ok:
                    run.fail(Finding("V3-explicit-default-has-real-reader", c, f"{wn.cond[1]}",
                                     f"{short(c)}.{wn.cond[1]} is DEFAULT FALSE: an explicitly encoded value must be decoded by a BOOLEAN read, found {found[0].brief()[:60] if found else 'no reader'}", ""))
    # V3b: BOOLEAN content is decoded by the boolean reader, never by truthiness of raw octets
    from ..resolve import Resolver as _R
    from .c05 import may_raise
    rs0 = _R(model)
    mr = may_raise(model)
    mr.escapes("sansldap._messages.unpack_ldap_message", None)
    decode_side = {k[0] for k in mr.summ if k[0] in model.functions}
    for fq, fi in list(model.functions.items()):
        if isinstance(fi.node, ast.Lambda) or fq not in decode_side or fi.module == ASN1:
            continue
        for n in walk_no_nested(fi.node):
            if isinstance(n, ast.Call) and isinstance(n.func, ast.Name) and n.func.id == "bool" and len(n.args) == 1:
                t = rs0.strip_opt(rs0.type_of(n.args[0], fi))
                if t[0] == "prim" and t[1] in ("bytes", "bytearray", "memoryview", "byteslike"):
                    run.ob("V3-explicit-default-has-real-reader", False)
                    run.fail(Finding("V3-explicit-default-has-real-reader", fq, norm(n), f"{fi.name} turns raw content octets into a bool with `{norm(n)}`: an explicitly encoded FALSE (00) is non-empty and becomes True", model.loc(fi.module, n)))
    # nothing rejects leftover data
    from ..resolve import Resolver
    rs = Resolver(model)
    from ..srcmodel import dominating_literals
    for fq, fi in list(model.functions.items()):
        if isinstance(fi.node, ast.Lambda) or fi.module == ASN1:
            continue
        env = rs.env(fi)
        readers = {k for k, v in env.items() if rs.strip_opt(v) == ("inst", f"{ASN1}.ASN1Reader")}
        if not readers:
            continue
        for n in walk_no_nested(fi.node):
            if not isinstance(n, ast.Raise):
                continue
            lits = dominating_literals(fi.node, n, include_loops=False)
            for l in lits:
                # the raise is only reached while the reader still holds data: `if reader:` / `reader.get_remaining_data()` ...
                hit = next((r for r in readers if l == r or l.startswith(f"{r}.get_remaining_data()") or l.startswith(f"len({r}.get_remaining_data())") and not l.endswith("== 0")), None)
                if hit:
                    run.ob("V4-no-rejection-of-leftover-data", False)
                    run.fail(Finding("V4-no-rejection-of-leftover-data", fq, l, f"{fi.name} raises when reader `{hit}` still has data: trailing elements must be ignored", model.loc(fi.module, n)))
    run.ob("V4-no-rejection-of-leftover-data", True)
    finish_with_errors(ex, run)


def walk_w(ws):
    for w in (ws if isinstance(ws, list) else [ws]):
        yield w
        yield from walk_w(w.children)


def enclosing(func: ast.AST, target: ast.AST):
    out = []

    def visit(node, stack):
        if node is target:
            out.extend(stack)
            return True
        for ch in ast.iter_child_nodes(node):
            st = stack
            if isinstance(node, ast.If) and ch is not node.test:
                if ch in node.body:
                    st = stack + [node.test]
                else:
                    st = stack      # else-branch: negation not tracked; the elif's own test is added below
            if visit(ch, st):
                return True
        return False
    visit(func, [])
    return out


V8_FIXTURE = """
def unpack(reader):
    h = reader.peek_header()
    if h != EXPECTED:
        raise ValueError("x")
    if h.tag_length > 2:
        raise ValueError("y")
    return reader.read_boolean(header=h)
"""


def _form_dependent(lit: str, header_names) -> bool:
    e = ast.parse(lit, mode="eval").body
    for x in ast.walk(e):
        if isinstance(x, ast.Attribute) and x.attr == "tag_length":
            return True
        if isinstance(x, ast.Compare):
            for side in [x.left] + list(x.comparators):
                if isinstance(side, ast.Name) and side.id in header_names:
                    other = [y for y in [x.left] + list(x.comparators) if y is not side]
                    if not all(isinstance(y, ast.Constant) and y.value is None for y in other):
                        return True       # the whole header (tag AND the octet counts of its encoding) is compared
    return False


def header_form_rejections(model: Model, run: Run) -> None:
    """V8: `ASN1Header.tag_length` is the number of identifier + length octets the peer chose to use.  A `raise` that is reached
    under a test of it - directly, or by comparing a whole header value with == / != / in - refuses some valid length form."""
    from ..srcmodel import dominating_literals
    from .c05 import may_raise
    rz = may_raise(model).r
    fx = ast.parse(V8_FIXTURE).body[0]
    fx_hits = sum(1 for r in ast.walk(fx) if isinstance(r, ast.Raise) and any(_form_dependent(l, {"h"}) for l in dominating_literals(fx, r)))
    if fx_hits != 2:
        raise AnalysisError("V8 self-check failed on its fixture")
    n = 0
    for fq, fi in list(model.functions.items()):
        if isinstance(fi.node, ast.Lambda) or fi.module == ASN1:
            continue
        raises = [r for r in walk_no_nested(fi.node) if isinstance(r, ast.Raise)]
        if not raises:
            continue
        env = rz.env(fi)
        hnames = {k for k, t in env.items() if rz.strip_opt(t) == ("inst", f"{ASN1}.ASN1Header")}
        if not hnames and "tag_length" not in model.modules[fi.module].source:
            continue
        for r in raises:
            lits = dominating_literals(fi.node, r)
            bad = [l for l in lits if _form_dependent(l, hnames)]
            n += 1
            run.ob("V8-no-rejection-by-header-form", not bad, {"function": fq.split("sansldap.")[-1], "line": r.lineno})
            if bad:
                run.fail(Finding("V8-no-rejection-by-header-form", fq, bad[0][:80],
                                 f"{fq.split('sansldap.')[-1]} raises when `{bad[0][:70]}`: the test depends on how many identifier/length octets the peer used "
                                 "(ASN1Header.tag_length), so the same element in another valid length form is refused", model.loc(fi.module, r)))
    run.coverage["raises_in_header_holding_functions"] = n
