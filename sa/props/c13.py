"""C13 - filter objects survive conversion to text and back / no filter injection (serialiser-side necessary conditions)."""
from __future__ import annotations

import ast
from typing import Dict, List, Optional, Set

from ..fold import Folder, Unfoldable
from ..report import Finding, Run
from ..rx.lang import Lang, difference_witness
from ..rx.nfa import CharSet, build
from ..rx.sites import find_sites
from ..srcmodel import AnalysisError, Model, norm, walk_no_nested
from .c16 import callback_format

FILTER = "sansldap._filter"
RFC4515_SPECIAL = [0x00, 0x28, 0x29, 0x2A, 0x5C]      # NUL ( ) * \


def bytes_fields(model: Model, cq: str) -> List[str]:
    out = []
    for f in model.dataclass_fields(cq):
        a = norm(f.annotation) if f.annotation is not None else ""
        if "bytes" in a:
            out.append(f.name)
    return out


def check(model: Model, run: Run) -> None:
    run.explanation = ("serialiser-side necessary conditions, decided on the source: (1) sanitiser routing - in every __str__ of a filter class each bytes-typed field "
                       "(or element of a List[bytes] field) reaches the text only as the argument of the value serialiser; (2) escape-set completeness - the folded "
                       "escape class contains every byte RFC 4515 gives meaning to, every byte the parser reacts to in value position, and every non-ASCII byte, and what "
                       "it leaves alone is printable ASCII; (3) format agreement - the callback writes backslash + two hex digits and that language is accepted by the "
                       "un-escaper's patterns. With (1)-(3) the serialiser is a homomorphism h with g(h(v)) = v for the un-escaper g. NOT decided: that the parser "
                       "rebuilds the same tree (its offset arithmetic: C14)")
    from ..commonrules import values_compare_by_their_fields
    values_compare_by_their_fields(model, run, "J23-filters-compare-by-their-fields", [f"{FILTER}.LDAPFilter"] + list(model.subclasses(f"{FILTER}.LDAPFilter", strict=True)),
                                   "`from_string(str(f)) == f` is then decided by something other than the fields (and a memo keyed on the filter confuses different filters)")
    from ..commonrules import no_memoised_views_of_fields, memoised_results_are_immutable
    no_memoised_views_of_fields(model, run, "J19-text-is-computed-when-asked", [f"{FILTER}.LDAPFilter"] + list(model.subclasses(f"{FILTER}.LDAPFilter", strict=True)),
                                "str() keeps giving the first text after a clause is added to or removed from the list the filter holds")
    memoised_results_are_immutable(model, run, "J20-no-memoised-mutable-results", [FILTER], "one parse or serialisation changes the result of the next")
    from ..commonrules import no_capacity_limits
    fs = model.find_method(f"{FILTER}.LDAPFilter", "from_string")
    if fs is None:
        raise AnalysisError("LDAPFilter.from_string not found")
    n_guards = no_capacity_limits(model, run, "J18-no-capacity-limit-in-the-parser", fs, FILTER, "filter text",
                                  "a filter str() wrote (any depth, any number of clauses) is no longer read back")
    run.floor("guarded raises in the filter string parser", n_guards, 10)
    # ---- locate the serialiser through the escape pattern's use site --------------------
    subs = [s for s in find_sites(model, (FILTER,)) if s.module == FILTER and s.api == "sub" and isinstance(s.pattern, bytes)]
    # the value serialiser is the module function the __str__ methods hand their bytes fields to; its substitution is the escape site
    from collections import Counter
    called = Counter()
    for cq in model.subclasses(f"{FILTER}.LDAPFilter", strict=True):
        strm = model.find_method(cq, "__str__")
        bfs = set(bytes_fields(model, cq))
        if strm is None or not bfs:
            continue
        def is_field(a: ast.expr) -> bool:
            if isinstance(a, ast.BoolOp) and isinstance(a.op, ast.Or):
                a = a.values[0]                     # `self.initial or b""`
            return isinstance(a, ast.Attribute) and isinstance(a.value, ast.Name) and a.value.id == "self" and a.attr in bfs
        for c in ast.walk(strm.node):
            # the innermost call that is handed the field itself (not a call that merely contains such a call in its arguments)
            if isinstance(c, ast.Call) and isinstance(c.func, ast.Name) and any(is_field(a) for a in c.args):
                q = model.resolve_name(FILTER, c.func.id)
                if q in model.functions:
                    called[q] += 1
    if not called:
        raise AnalysisError("no __str__ of a filter class hands a bytes field to a module function (value serialiser not found)")
    ser_q = called.most_common(1)[0][0]
    # the function handed the field may be a formatting helper that passes it on to the serialiser proper
    for _hop in range(3):
        if any(s.func == ser_q or s.func.startswith(ser_q + ".") for s in subs):
            break
        nxt = Counter()
        f0 = model.functions[ser_q]
        for c in ast.walk(f0.node):
            if isinstance(c, ast.Call) and isinstance(c.func, ast.Name) and any(isinstance(a, ast.Name) and a.id in f0.params() for a in c.args):
                q = model.resolve_name(FILTER, c.func.id)
                if q in model.functions and q != ser_q:
                    nxt[q] += 1
        if not nxt:
            break
        ser_q = nxt.most_common(1)[0][0]
    ser = [s for s in subs if s.func == ser_q or s.func.startswith(ser_q + ".")]
    if not ser or any(s_.node is not ser[0].node for s_ in ser):
        raise AnalysisError(f"expected one escape substitution in {ser_q}, found {len(ser)}")
    esite = ser[0]
    sfi = model.functions[ser_q]
    single = all(single_byte_pattern(s_.pattern, s_.flags) for s_ in ser)
    enfa = build(esite.pattern, esite.flags, "match") if single else None
    run.ob("J2-escape-pattern-is-one-unconditional-byte-class", single, {"pattern": repr(esite.pattern)[:80]})
    if not single:
        run.fail(Finding("J2-escape-pattern-is-one-unconditional-byte-class", f"{FILTER}.{esite.name}", "conditional or multi-byte escape pattern",
                         "the value serialiser's escape pattern is not a plain set of single bytes (look-around, alternation of longer strings ...): whether a byte is escaped then "
                         "depends on its neighbours, so some value containing a special byte is written unescaped", model.loc(FILTER, esite.node)))
        return
    E = enfa.positions[0].cs
    for p_ in enfa.positions[1:]:
        E = E.union(p_.cs)
    # the substitution chooses between several patterns (`pattern = A if flag else B`): a byte is certainly escaped only if every
    # choice escapes it - the flag is the caller's, and the text is read back by one parser whatever the caller chose
    for s_ in ser[1:]:
        n2 = build(s_.pattern, s_.flags, "match")
        E2 = n2.positions[0].cs
        for p_ in n2.positions[1:]:
            E2 = E2.union(p_.cs)
        E = E.intersect(E2)
    # ---- (1) sanitiser routing ------------------------------------------------------------
    n_fields = 0
    for cq in model.subclasses(f"{FILTER}.LDAPFilter", strict=True):
        bfs = bytes_fields(model, cq)
        if not bfs:
            continue
        strm = model.find_method(cq, "__str__")
        if strm is None:
            run.ob("J1-sanitiser-routing", False)
            run.fail(Finding("J1-sanitiser-routing", cq, "no __str__", "a value-carrying filter class has no __str__ of its own", model.loc(FILTER, model.classes[cq].node)))
            continue
        # taint dataflow inside __str__: the bytes fields are tainted; the value serialiser (applied directly, through map(), or in a
        # comprehension) cleans; whatever reaches the returned text must be clean.  Tests (`is None`, truthiness) are not uses.
        ser_name = sfi.name
        tainted: Set[str] = set()

        def is_src(e: ast.expr) -> bool:
            return isinstance(e, ast.Attribute) and isinstance(e.value, ast.Name) and e.value.id == "self" and e.attr in bfs

        def clean(e: ast.AST, extra: Set[str] = frozenset()) -> bool:
            if isinstance(e, ast.Name):
                return e.id not in tainted and e.id not in extra
            if is_src(e):
                return False
            if isinstance(e, ast.Call):
                fn = e.func
                if isinstance(fn, ast.Name) and fn.id == ser_name:
                    return True
                if isinstance(fn, ast.Name) and fn.id == "map" and e.args and isinstance(e.args[0], ast.Name) and e.args[0].id == ser_name:
                    return True
                parts = list(e.args) + [k.value for k in e.keywords] + ([fn.value] if isinstance(fn, ast.Attribute) else [])
                return all(clean(p_, extra) for p_ in parts)
            if isinstance(e, (ast.ListComp, ast.GeneratorExp, ast.SetComp)):
                ex2 = set(extra)
                for g in e.generators:
                    if not clean(g.iter, ex2):
                        ex2 |= {x.id for x in ast.walk(g.target) if isinstance(x, ast.Name)}
                return clean(e.elt, ex2)
            if isinstance(e, ast.IfExp):
                return clean(e.body, extra) and clean(e.orelse, extra)
            if isinstance(e, ast.Compare):
                return True              # a comparison yields a bool, not the octets
            return all(clean(ch, extra) for ch in ast.iter_child_nodes(e) if isinstance(ch, ast.expr))
        for _pass in range(3):
            for n in ast.walk(strm.node):
                if isinstance(n, (ast.Assign, ast.AnnAssign)) and n.value is not None and not clean(n.value):
                    for t_ in (n.targets if isinstance(n, ast.Assign) else [n.target]):
                        tainted |= {x.id for x in ast.walk(t_) if isinstance(x, ast.Name)}
                elif isinstance(n, ast.For) and not clean(n.iter):
                    tainted |= {x.id for x in ast.walk(n.target) if isinstance(x, ast.Name)}
                elif isinstance(n, ast.Call) and isinstance(n.func, ast.Attribute) and n.func.attr in ("append", "extend", "insert", "add") and isinstance(n.func.value, ast.Name) \
                        and not all(clean(a_) for a_ in n.args):
                    tainted.add(n.func.value.id)
        rets_ = [r for r in ast.walk(strm.node) if isinstance(r, ast.Return) and r.value is not None]
        referenced = {x.attr for x in ast.walk(strm.node) if is_src(x)}
        for fld in bfs:
            n_fields += 1
            bad_rets = [r for r in rets_ if not clean(r.value)]
            # which field is to blame: a return is dirty because of this field if it is dirty with only this field as a source
            dirty = False
            if bad_rets:
                others = set(bfs) - {fld}
                saved_bfs = bfs
                bfs = [fld]
                tainted_saved = set(tainted)
                tainted.clear()
                for _pass in range(3):
                    for n in ast.walk(strm.node):
                        if isinstance(n, (ast.Assign, ast.AnnAssign)) and n.value is not None and not clean(n.value):
                            for t_ in (n.targets if isinstance(n, ast.Assign) else [n.target]):
                                tainted |= {x.id for x in ast.walk(t_) if isinstance(x, ast.Name)}
                        elif isinstance(n, ast.For) and not clean(n.iter):
                            tainted |= {x.id for x in ast.walk(n.target) if isinstance(x, ast.Name)}
                        elif isinstance(n, ast.Call) and isinstance(n.func, ast.Attribute) and n.func.attr in ("append", "extend", "insert", "add") and isinstance(n.func.value, ast.Name) \
                                and not all(clean(a_) for a_ in n.args):
                            tainted.add(n.func.value.id)
                dirty = any(not clean(r.value) for r in rets_)
                bfs = saved_bfs
                tainted.clear()
                tainted |= tainted_saved
            good = fld in referenced and not dirty
            run.ob("J1-sanitiser-routing", good, {"class": cq.split(".")[-1], "field": fld})
            if not good:
                run.fail(Finding("J1-sanitiser-routing", f"{cq}.__str__", f"field={fld}|{'unsanitised use' if dirty else 'never written'}",
                                 f"`{fld}` ({'reaches the text without passing through ' + sfi.name if dirty else 'is not written by __str__'}): value octets could change the filter's shape",
                                 model.loc(FILTER, bad_rets[0] if dirty and bad_rets else strm.node)))
    run.floor("bytes-typed filter fields", n_fields, 8)
    # ---- (2) escape-set completeness -------------------------------------------------------
    # bytes the parser reacts to while scanning a value: literals compared with chr(view[i]) / split bytes / the un-escaper's lead byte
    parser_special: Set[int] = set()
    from ..anchors import filt as filter_anchors
    for fi in filter_anchors(model).parser_functions:
        for n in ast.walk(fi.node):
            if isinstance(n, ast.Constant) and isinstance(n.value, (str, bytes)) and len(n.value) == 1:
                c = n.value if isinstance(n.value, str) else n.value.decode("latin-1")
                if c in "()*\\":
                    parser_special.add(ord(c))
    unesc = [s for s in subs if s.node is not esite.node]
    # J21: escapes are decoded in ONE pass over the text (one substitution with a callback, or one scan): a loop of `.replace()` calls -
    # one per escape, or per distinct escape - feeds the output of each pass to the next, and a backslash produced by decoding `\5c`
    # joins the two characters after it into an escape nobody wrote
    if not unesc:
        hexers = [f for f in model.functions.values() if f.module == FILTER and not isinstance(f.node, ast.Lambda) and
                  any(isinstance(c, ast.Call) and (norm(c.func).endswith("b16decode") or norm(c.func).endswith("fromhex") or
                                                   (isinstance(c.func, ast.Name) and c.func.id == "int" and len(c.args) == 2)) for c in ast.walk(f.node))]
        seq = [(f, c) for f in hexers for c in ast.walk(f.node) if isinstance(c, ast.Call) and isinstance(c.func, ast.Attribute) and c.func.attr == "replace" and len(c.args) >= 2 and
               any(isinstance(l, (ast.For, ast.While)) and any(x is c for x in ast.walk(l)) for l in ast.walk(f.node))]
        if seq:
            f, c = seq[0]
            run.ob("J21-escapes-decoded-in-one-pass", False, {"function": f.name})
            run.fail(Finding("J21-escapes-decoded-in-one-pass", f.qualname, norm(c)[:80],
                             f"{f.name} decodes escapes with `{norm(c)[:50]}` inside a loop: every pass rescans what the passes before it produced, so the backslash that "
                             "`\\5c` decodes to can combine with the hex digits after it and be decoded a second time", model.loc(f.module, c)))
        raise AnalysisError("un-escaper substitution not found")
    run.ob("J21-escapes-decoded-in-one-pass", True, {"substitution": unesc[0].name})
    lead = None
    if len(unesc) == 1:
        un = build(unesc[0].pattern, unesc[0].flags, "match")
        firsts = [p for p in un.positions if p.src == un.start or any(True for _ in [0])]
        lead_cs = un.positions[0].cs
        if lead_cs.size() == 1:
            lead = lead_cs.iv[0][0]
            parser_special.add(lead)
    need = CharSet([(c, c) for c in RFC4515_SPECIAL] + [(c, c) for c in parser_special] + [(0x80, 0xFF)])
    missing = need.intersect(E.complement(255))
    ok = not missing
    run.ob("J2-escape-set-complete", ok, {"escape_class": repr(E), "required": repr(need), "missing": repr(missing), "parser_special": sorted(chr(c) for c in parser_special)})
    if not ok:
        run.fail(Finding("J2-escape-set-complete", f"{FILTER}.{esite.name}", f"missing={missing!r}",
                         f"the value serialiser leaves {missing!r} unescaped although RFC 4515 or the parser gives these bytes meaning in value position (or they are not ASCII)",
                         model.loc(FILTER, esite.node)))
    rest = E.complement(255)
    printable = CharSet([(0x20, 0x7E)])
    stray = rest.intersect(printable.complement(255))
    ok = not stray
    run.ob("J2-unescaped-bytes-are-printable-ascii", ok, {"unescaped": repr(rest), "non_printable_unescaped": repr(stray)})
    if not ok:
        run.fail(Finding("J2-unescaped-bytes-are-printable-ascii", f"{FILTER}.{esite.name}", f"stray={stray!r}", f"bytes {stray!r} are written raw: the text may not be decodable/strippable as written", model.loc(FILTER, esite.node)))
    # ---- (3) format agreement -----------------------------------------------------------------
    fmt = callback_format(model, sfi, esite.callback)
    ok = fmt is not None and fmt[0] == "\\" and fmt[1] in ("02x", "02X")
    run.ob("J3-escape-format", ok, {"format": fmt})
    if not ok:
        run.fail(Finding("J3-escape-format", sfi.qualname, f"format={fmt}", "escapes are not written as backslash + exactly two hex digits of ord(byte)", model.loc(FILTER, esite.node)))
    if ok:
        digits = "0-9a-f" if fmt[1] == "02x" else "0-9A-F"
        W = Lang(build(f"\\\\[{digits}]{{2}}".encode(), 0, "fullmatch"))
        # what the un-escaper accepts: its escape pattern must match the three bytes and the hex check must accept the two digits
        if len(unesc) != 1:
            raise AnalysisError("un-escaper substitution not found")
        hexs = [s for s in find_sites(model, (FILTER,)) if s.module == FILTER and s.api in ("match", "fullmatch") and s.func.startswith(unesc[0].func)]
        R1 = Lang(build(unesc[0].pattern, unesc[0].flags, "fullmatch"))
        w = difference_witness(W, R1)
        ok1 = w is None
        ufi0 = model.functions[unesc[0].func]
        strict_hex_decoding(model, run, unesc[0], "J4-strict-hex-decoding")
        ok2, w2 = True, None
        hx = hexs[0] if hexs else None
        if hx is not None:
            H = Lang(build(hx.pattern, hx.flags, "match"))
            Wd = Lang(build(f"[{digits}]{{2}}", 0, "fullmatch"))
            w2 = difference_witness(Wd, H)
            ok2 = w2 is None
        run.ob("J3-escapes-accepted-by-unescaper", ok1 and ok2, {"escape_not_matched": w, "digits_not_accepted": w2})
        if not (ok1 and ok2):
            run.fail(Finding("J3-escapes-accepted-by-unescaper", unesc[0].func, f"w={w} w2={w2}", "an escape the serialiser writes is not recognised by the un-escaper's patterns", model.loc(FILTER, unesc[0].node)))
        # the hex check is case-normalised before decoding (b16decode only takes upper case unless casefold)
        ufi = model.functions[hx.func] if hx is not None and hx.func in model.functions else None
        if ufi is not None:
            dec = [c for c in ast.walk(ufi.node) if isinstance(c, ast.Call) and norm(c.func).endswith("b16decode")]
            okc = bool(dec) and all(any(isinstance(x, ast.Call) and isinstance(x.func, ast.Attribute) and x.func.attr == "upper" for x in ast.walk(c.args[0])) or
                                    any(k.arg == "casefold" and isinstance(k.value, ast.Constant) and k.value.value for k in c.keywords) or
                                    (len(c.args) > 1 and isinstance(c.args[1], ast.Constant) and c.args[1].value) for c in dec)
            if dec:
                run.ob("J3-hex-case-normalised", okc)
                if not okc:
                    run.fail(Finding("J3-hex-case-normalised", ufi.qualname, norm(dec[0])[:80], "lower-case hex escapes written by the serialiser are handed to b16decode without upper()/casefold", model.loc(FILTER, dec[0])))
    # the escape lead byte is itself escaped
    if lead is not None:
        ok = lead in E
        run.ob("J2-escape-lead-byte-escaped", ok)
        if not ok:
            run.fail(Finding("J2-escape-lead-byte-escaped", f"{FILTER}.{esite.name}", f"lead={chr(lead)!r}", "the escape character itself is not escaped", model.loc(FILTER, esite.node)))
    parser_structure_rules(model, run, unesc)
    operator_agreement(model, run)
    exact_markers(model, run)
    empty_values_accepted(model, run)
    serialisers_are_pure(model, run)
    components_rendered_as_held(model, run)
    no_default_for_empty_text(model, run)
    delimiter_scans_start_at_the_first_octet(model, run)
    delimiter_searches_stay_in_their_piece(model, run)
    from .c17 import hooks_store_fields_as_given
    hooks_store_fields_as_given(model, run, model.subclasses(f"{FILTER}.LDAPFilter"), "J14-fields-held-as-given",
                                "the filter from_string builds is changed again on construction, so it is not the filter the text denotes")
    no_size_based_rejection(model, run)
    from .c19 import parse_results_fresh
    parse_results_fresh(model, run, "sansldap._filter", "J5-parse-results-are-fresh", "from_string(str(f)) == f")
    # last, because it needs the attribute pattern to be identified: every RFC 4512 name is accepted by the parser
    from .c15_lang import valid_names_are_accepted
    valid_names_are_accepted(model, run, "J24-valid-names-are-accepted")


def strict_hex_decoding(model: Model, run: Run, unesc_site, rule: str) -> None:
    """the two characters after the escape lead byte are decoded by a strict hex decoder, or checked against a pattern whose
    language is exactly two hex digits before a lenient one (bytes.fromhex skips blanks, int() takes signs/underscores) is used"""
    hexs = [s for s in find_sites(model, (FILTER,)) if s.module == FILTER and s.api in ("match", "fullmatch") and s.func.startswith(unesc_site.func)]
    ufi0 = model.functions[unesc_site.func]
    LENIENT = {"bytes.fromhex": "skips ASCII whitespace", "bytearray.fromhex": "skips ASCII whitespace", "int": "accepts signs, underscores, whitespace and prefixes"}
    STRICT = ("base64.b16decode", "binascii.unhexlify", "binascii.a2b_hex")
    two_hex = Lang(build("[0-9A-Fa-f]{2}", 0, "fullmatch"))
    guard_ok = False
    for hs_ in hexs:
        Hl = Lang(build(hs_.pattern, hs_.flags, hs_.api if hs_.api in ("match", "fullmatch") else "match"))
        # ignoring a possible final newline (the un-escaper hands over at most two characters, none of them a newline)
        extra = difference_witness(Hl, two_hex)
        if extra is None or (len(extra) == 3 and extra[-1] == 10):
            guard_ok = True
    decs = []
    for c in ast.walk(ufi0.node):
        if isinstance(c, ast.Call):
            t = norm(c.func)
            if t in STRICT or t in LENIENT and (t != "int" or len(c.args) == 2):
                decs.append((t, c))
    for t, c in decs:
        okd = t in STRICT or guard_ok
        run.ob(rule, okd, {"decoder": t, "guarded_by_two-hex-digit_pattern": guard_ok})
        if not okd:
            run.fail(Finding(rule, ufi0.qualname, f"{t}|unguarded", f"escape digits are decoded with {t}, which {LENIENT[t]}, without a dominating check that they are exactly two hex digits: "
                             "text that is not an RFC 4515 escape is accepted and does not survive the round trip", model.loc(FILTER, c)))
    # a lookup table in place of a decoder: TABLE.get(<two characters>) / TABLE[...] with TABLE a module-level dict that folds
    tables = []
    for c in ast.walk(ufi0.node):
        nm = None
        if isinstance(c, ast.Call) and isinstance(c.func, ast.Attribute) and c.func.attr == "get" and isinstance(c.func.value, ast.Name):
            nm = c.func.value.id
        elif isinstance(c, ast.Subscript) and isinstance(c.value, ast.Name) and isinstance(c.ctx, ast.Load):
            nm = c.value.id
        if nm and model.modules[FILTER].globals_.get(nm):
            try:
                tab = Folder(model).fold_global(FILTER, nm)
            except Unfoldable:
                continue
            if isinstance(tab, dict) and tab and all(isinstance(k, (str, bytes)) for k in tab):
                folded = any(isinstance(x, ast.Call) and isinstance(x.func, ast.Attribute) and x.func.attr in ("lower", "upper", "casefold") for x in ast.walk(c))
                tables.append((nm, tab, c, folded))
    for nm, tab, c, folded in tables:
        def octet(v):
            return v[0] if isinstance(v, (bytes, bytearray)) and len(v) == 1 else (v if isinstance(v, int) else None)
        def txt(k):
            return k.decode("latin-1") if isinstance(k, bytes) else k
        wrong = [txt(k) for k, v in tab.items() if len(txt(k)) != 2 or not all(ch in "0123456789abcdefABCDEF" for ch in txt(k)) or octet(v) != int(txt(k), 16)]
        have = {txt(k) for k in tab}
        need = {f"{i:02x}" for i in range(256)} if folded else {f"{i:02x}" for i in range(256)} | {f"{i:02X}" for i in range(256)}
        if folded and all(k == k.upper() for k in have):
            need = {k.upper() for k in need}
        missing = sorted(need - have)
        okd = not wrong and not missing
        run.ob(rule, okd, {"decoder": f"table {nm}", "entries": len(tab), "missing": missing[:4], "wrong": wrong[:4]})
        if not okd:
            what = f"has no entry for {missing[:4]}" if missing else f"maps {wrong[:4]} to something that is not the octet the digits denote"
            run.fail(Finding(rule, ufi0.qualname, f"table {nm}|{'missing ' + ','.join(missing[:4]) if missing else 'wrong ' + ','.join(wrong[:4])}",
                             f"escape digits are decoded through the table {nm}, which {what}: an RFC 4515 escape the serialiser itself emits is rejected or decoded to another octet",
                             model.loc(FILTER, c)))
    if not decs and not tables:
        run.note("no recognised hex decoder in the un-escaper: strict decoding not decided")


def single_byte_pattern(pattern, flags: int) -> bool:
    """the pattern matches exactly one character, unconditionally: a class / literal / alternation of those"""
    import re._constants as RC
    import re._parser as RP
    try:
        tree = RP.parse(pattern, flags)
    except Exception:
        return False
    ONE = (RC.IN, RC.LITERAL, RC.NOT_LITERAL, RC.ANY)

    def one(items) -> bool:
        items = list(items)
        if len(items) != 1:
            return False
        op, arg = items[0]
        if op in ONE:
            return True
        if op is RC.BRANCH:
            return all(one(alt) for alt in arg[1])
        if op is RC.SUBPATTERN:
            return one(arg[3])
        return False
    return one(tree)


def parser_structure_rules(model: Model, run: Run, unesc) -> None:
    """J6/J7: the structure of a simple filter is read off the raw text, never off decoded octets.
    J6  FilterPresent is chosen exactly when the raw value equals b"*" (a dominating literal of its return);
    J7  nothing that is *definitely* the un-escaper's output is cut at b"*": an escaped \\2a would become a separator.
        `definitely` = every binding of the local is a call of the un-escaper, or it is that call itself; a parameter is
        definitely decoded when every call site passes such a value."""
    from ..anchors import filt as filter_anchors
    from ..srcmodel import dominating_literals
    fa = filter_anchors(model)
    if len(unesc) != 1:
        run.note("un-escaper not identified: J6/J7 not decided")
        return
    unq = unesc[0].func.split(".<locals>")[0]
    un_name = unq.split(".")[-1]

    def is_decode_call(e: ast.expr) -> bool:
        return isinstance(e, ast.Call) and isinstance(e.func, ast.Name) and e.func.id == un_name

    from ..srcmodel import _neg_lits

    def contradicts(la: List[str], lb: List[str]) -> bool:
        """some condition of la is the negation of a condition of lb"""
        for l in la:
            try:
                negs = _neg_lits(ast.parse(l, mode="eval").body)
            except SyntaxError:
                continue
            if len(negs) == 1 and negs[0] in lb:
                return True
        # `not x` against `x == <a value that is true>` (and the other way round)
        def falsy_names(ls):
            return {l[4:].strip() for l in ls if l.startswith("not ") and l[4:].strip().isidentifier()}

        def truthy_names(ls):
            out = set()
            for l in ls:
                try:
                    e_ = ast.parse(l, mode="eval").body
                except SyntaxError:
                    continue
                if isinstance(e_, ast.Name):
                    out.add(e_.id)
                if isinstance(e_, ast.Compare) and len(e_.ops) == 1 and isinstance(e_.ops[0], ast.Eq) and isinstance(e_.left, ast.Name) and \
                        isinstance(e_.comparators[0], ast.Constant) and e_.comparators[0].value:
                    out.add(e_.left.id)
                if isinstance(e_, ast.Compare) and len(e_.ops) == 1 and isinstance(e_.ops[0], ast.In) and isinstance(e_.left, ast.Name) and \
                        isinstance(e_.comparators[0], (ast.Tuple, ast.List)) and all(isinstance(x, ast.Constant) and x.value for x in e_.comparators[0].elts):
                    out.add(e_.left.id)
            return out
        if falsy_names(la) & truthy_names(lb) or falsy_names(lb) & truthy_names(la):
            return True
        return False

    def definitely_decoded(fi, e: ast.expr, depth: int = 0, at: Optional[ast.AST] = None) -> bool:
        if is_decode_call(e):
            return True
        if isinstance(e, ast.Call) and isinstance(e.func, ast.Attribute) and e.func.attr in ("strip", "lstrip", "rstrip", "lower", "upper"):
            return definitely_decoded(fi, e.func.value, depth, at)
        if isinstance(e, ast.Name):
            bst = [a for a in walk_no_nested(fi.node) if isinstance(a, (ast.Assign, ast.AnnAssign)) and a.value is not None and
                   any(isinstance(t, ast.Name) and t.id == e.id for t in (a.targets if isinstance(a, ast.Assign) else [a.target]))]
            if bst and at is not None and len(bst) > 1:
                # a binding made under conditions that cannot hold where the value is used does not reach the use
                # (`if C: x = decode(raw) else: x = raw` ... later, under a test that settles C)
                lu = dominating_literals(fi.node, at)
                live = [a for a in bst if not contradicts(dominating_literals(fi.node, a), lu)]
                bst = live or bst
            binds = [a.value for a in bst]
            if binds:
                return all(definitely_decoded(fi, b, depth) for b in binds)
            if e.id in fi.params() and depth < 3:
                idx = fi.params().index(e.id)
                sites = []
                for f2 in fa.parser_functions + [fa.entry]:
                    for c in walk_no_nested(f2.node):
                        if isinstance(c, ast.Call) and isinstance(c.func, ast.Name) and c.func.id == fi.name:
                            a = c.args[idx] if idx < len(c.args) else next((k.value for k in c.keywords if k.arg == e.id), None)
                            sites.append((f2, a, c))
                return bool(sites) and all(a is not None and definitely_decoded(f2, a, depth + 1, c_) for f2, a, c_ in sites)
        return False
    # J16: every octet-string value that reaches a filter constructor went through the un-escaper (None / literals aside),
    # whichever helper it was cut out in: one component left as escape text does not survive the round trip
    filt_classes = set(model.subclasses(f"{FILTER}.LDAPFilter", strict=True))
    pf_by_name = {f.name: f for f in fa.parser_functions}

    def is_decode(e: ast.expr) -> bool:
        return isinstance(e, ast.Call) and ((isinstance(e.func, ast.Name) and e.func.id == un_name) or
                                            (isinstance(e.func, ast.Attribute) and e.func.attr in (un_name, un_name.lstrip("_"))))

    def value_kinds(fi, e: ast.expr, depth: int = 0, seen=None):
        """{"dec", "raw", "const"} over every way e can be bound, with one witness expression per kind"""
        seen = seen if seen is not None else set()
        out = {}
        if depth > 4:
            return {"dec": e, "raw": e}
        if isinstance(e, ast.Constant):
            return {"const": e}
        if is_decode(e):
            return {"dec": e}
        if isinstance(e, (ast.List, ast.Tuple)):
            for x in e.elts:
                out.update(value_kinds(fi, x, depth, seen))
            return out or {"const": e}
        if isinstance(e, ast.IfExp):
            out.update(value_kinds(fi, e.body, depth, seen))
            out.update(value_kinds(fi, e.orelse, depth, seen))
            return out
        if isinstance(e, ast.Name):
            if (fi.qualname, e.id) in seen:
                return {}
            seen.add((fi.qualname, e.id))
            found = False
            for a_ in walk_no_nested(fi.node):
                if isinstance(a_, (ast.Assign, ast.AnnAssign)) and a_.value is not None:
                    tg = a_.targets if isinstance(a_, ast.Assign) else [a_.target]
                    if any(isinstance(t, ast.Name) and t.id == e.id for t in tg):
                        found = True
                        out.update(value_kinds(fi, a_.value, depth, seen))
                    for t in tg:
                        if isinstance(t, ast.Tuple) and isinstance(a_.value, ast.Call) and any(isinstance(x, ast.Name) and x.id == e.id for x in t.elts):
                            found = True
                            names = [x.id if isinstance(x, ast.Name) else None for x in t.elts]
                            hname = a_.value.func.id if isinstance(a_.value.func, ast.Name) else a_.value.func.attr if isinstance(a_.value.func, ast.Attribute) else None
                            h = pf_by_name.get(hname)
                            if h is None:
                                out.update({"dec": a_.value, "raw": a_.value})        # not followed: no verdict either way
                                continue
                            idx = names.index(e.id)
                            for r in walk_no_nested(h.node):
                                if isinstance(r, ast.Return) and isinstance(r.value, ast.Tuple) and idx < len(r.value.elts):
                                    out.update(value_kinds(h, r.value.elts[idx], depth + 1, seen))
                                elif isinstance(r, ast.Return) and r.value is not None:
                                    out.update({"dec": r.value, "raw": r.value})
                if isinstance(a_, ast.Call) and isinstance(a_.func, ast.Attribute) and isinstance(a_.func.value, ast.Name) and a_.func.value.id == e.id and \
                        a_.func.attr in ("append", "insert", "extend") and a_.args:
                    found = True
                    out.update(value_kinds(fi, a_.args[-1], depth, seen))
                if isinstance(a_, (ast.For, ast.comprehension)) and any(isinstance(x, ast.Name) and x.id == e.id for x in ast.walk(a_.target)):
                    found = True
                    out.update({"raw": a_.iter})          # a piece of whatever is being iterated: raw text unless decoded afterwards
            if not found and e.id in fi.params():
                idx = fi.params().index(e.id)
                off = 1 if fi.cls and not fi.is_staticmethod else 0
                for f2 in fa.parser_functions + [fa.entry]:
                    for c in walk_no_nested(f2.node):
                        if isinstance(c, ast.Call) and ((isinstance(c.func, ast.Name) and c.func.id == fi.name) or (isinstance(c.func, ast.Attribute) and c.func.attr == fi.name)):
                            j = idx - (off if isinstance(c.func, ast.Attribute) else 0)
                            a = c.args[j] if 0 <= j < len(c.args) else next((k.value for k in c.keywords if k.arg == e.id), None)
                            if a is not None:
                                out.update(value_kinds(f2, a, depth + 1, seen))
                return out or {"raw": e}
            return out if found else {"raw": e}
        if isinstance(e, ast.Call) and isinstance(e.func, ast.Attribute) and e.func.attr in ("tobytes", "strip", "lstrip", "rstrip") and not is_decode(e):
            return value_kinds(fi, e.func.value, depth, seen) if isinstance(e.func.value, ast.Name) else {"raw": e}
        if isinstance(e, ast.Call) and isinstance(e.func, ast.Name) and e.func.id in ("bytes", "bytearray") and len(e.args) == 1:
            return value_kinds(fi, e.args[0], depth, seen) if isinstance(e.args[0], ast.Name) else {"raw": e}
        if isinstance(e, ast.Subscript):
            return value_kinds(fi, e.value, depth, seen) if isinstance(e.value, ast.Name) else {"raw": e}
        if isinstance(e, ast.Call):
            return {"dec": e, "raw": e}          # some other call: not followed, no verdict
        return {"raw": e}

    def decoded_value(fi, e: ast.expr, depth: int = 0, at: Optional[ast.AST] = None) -> Optional[ast.AST]:
        """an expression showing that e is escape text that was NEVER un-escaped on any way it can be bound; None otherwise
        (also when some ways decode and others do not: which one reaches the constructor is a path question this rule leaves
        to J7 / J6)"""
        k = value_kinds(fi, e)
        if "raw" in k and "dec" not in k:
            return k["raw"]
        return None
    n16 = 0
    for fi in fa.parser_functions:
        for c in walk_no_nested(fi.node):
            if isinstance(c, ast.Call) and isinstance(c.func, (ast.Name, ast.Attribute)):
                q = model.resolve_name(fi.module, norm(c.func))
                if q in filt_classes:
                    bf = set(bytes_fields(model, q))
                    fields = [f.name for f in model.dataclass_fields(q) if f.init]
                    for fname, arg in list(zip(fields, c.args)) + [(k.arg, k.value) for k in c.keywords if k.arg]:
                        if fname in bf:
                            n16 += 1
                            bad = decoded_value(fi, arg, 0, c)
                            run.ob("J16-values-reach-constructors-unescaped", bad is None, {"function": fi.name, "constructor": q.split(".")[-1], "field": fname})
                            if bad is not None:
                                run.fail(Finding("J16-values-reach-constructors-unescaped", fi.qualname, f"{q.split('.')[-1]}.{fname}|{norm(bad)[:50]}",
                                                 f"{fi.name} hands `{norm(bad)[:50]}` to {q.split('.')[-1]}.{fname} without passing it through the un-escaper {un_name}: "
                                                 "escape sequences in that component stay in the value as literal text", model.loc(fi.module, c)))
    run.floor("assertion values handed to filter constructors", n16, 4)
    n7 = 0
    for fi in fa.parser_functions:
        if fi.qualname == unq:
            continue
        for c in walk_no_nested(fi.node):
            if isinstance(c, ast.Call) and isinstance(c.func, ast.Attribute) and c.func.attr in ("split", "partition", "find", "index", "count") and c.args and \
                    isinstance(c.args[0], ast.Constant) and c.args[0].value in (b"*", "*"):
                n7 += 1
                bad = definitely_decoded(fi, c.func.value, 0, c)
                run.ob("J7-structure-read-before-unescaping", not bad, {"function": fi.name, "cut": norm(c)[:60]})
                if bad:
                    run.fail(Finding("J7-structure-read-before-unescaping", fi.qualname, norm(c)[:80],
                                     f"{fi.name} cuts `{norm(c.func.value)[:40]}` at '*' after it has been un-escaped: an escaped \\2a inside a component becomes a separator, "
                                     "so a value containing '*' changes the shape of the filter", model.loc(fi.module, c)))
    run.floor("cuts at '*' in the filter string parser", n7, 1)
    n6 = 0
    for fi in fa.parser_functions:
        for r in walk_no_nested(fi.node):
            if isinstance(r, ast.Return) and r.value is not None and any(isinstance(x, ast.Call) and isinstance(x.func, ast.Name) and x.func.id == "FilterPresent" for x in ast.walk(r.value)):
                n6 += 1
                lits = dominating_literals(fi.node, r)
                eqs = [l for l in lits if l.endswith(" == b'*'") or l.startswith("b'*' == ")]
                ok = False
                for l in eqs:
                    v = l.replace(" == b'*'", "").replace("b'*' == ", "")
                    e = ast.parse(v, mode="eval").body
                    # the compared value is a raw slice of the input: a local bound once from <view>[a:b].tobytes() / bytes(...)
                    if isinstance(e, ast.Name):
                        binds = [a.value for a in walk_no_nested(fi.node) if isinstance(a, ast.Assign) and any(isinstance(t, ast.Name) and t.id == e.id for t in a.targets)]
                        # (bound more than once - cut at the first ')' in a second step - is as raw as its least raw binding)
                        if binds and all(not definitely_decoded(fi, b_) and not any(isinstance(x, ast.Call) and isinstance(x.func, ast.Attribute) and x.func.attr in ("strip", "lstrip", "rstrip", "replace", "translate", "join", "lower", "upper")
                                                                                     for x in ast.walk(b_)) and
                                         (len(binds) == 1 or isinstance(b_, (ast.Subscript, ast.Call))) for b_ in binds):
                            ok = True
                run.ob("J6-present-iff-raw-asterisk", ok, {"function": fi.name, "conditions": lits[-4:]})
                if not ok:
                    run.fail(Finding("J6-present-iff-raw-asterisk", fi.qualname, "FilterPresent condition", f"{fi.name} returns a presence filter under {lits[-3:]}: it must be chosen exactly when "
                                     "the raw value text is b'*'; anything wider turns substring filters whose text it also covers into presence filters", model.loc(fi.module, r)))
    run.floor("FilterPresent returns in the filter string parser", n6, 1)


CASE_FOLDS = ("lower", "upper", "casefold", "swapcase", "title", "capitalize")

J9_FIXTURE = "def f(parts):\n    if parts and parts[0].lower() == 'dn':\n        return True\n    return False\n"


def _case_folded_compares(func_node: ast.AST):
    out = []
    for c in walk_no_nested(func_node):
        if isinstance(c, ast.Compare) and len(c.ops) == 1 and isinstance(c.ops[0], (ast.Eq, ast.NotEq, ast.In, ast.NotIn)):
            sides = [c.left, c.comparators[0]]
            folded = [x for x in sides if any(isinstance(y, ast.Call) and isinstance(y.func, ast.Attribute) and y.func.attr in CASE_FOLDS for y in ast.walk(x))]
            lits = [x for x in sides if any(isinstance(y, ast.Constant) and isinstance(y.value, (str, bytes)) for y in ast.walk(x))]
            if folded and lits and folded[0] is not lits[0]:
                out.append(c)
    return out


def exact_markers(model: Model, run: Run) -> None:
    """J9: the text form is case-exact (the serialiser writes its markers one way, attribute descriptions and matching-rule
    names are kept as given and compared case-sensitively), so the string parser never compares case-folded text with a
    literal: a folded comparison takes some spelling that is a valid name (`DN` as a matching rule) for a marker."""
    from ..anchors import filt as filter_anchors
    fa = filter_anchors(model)
    fx = ast.parse(J9_FIXTURE).body[0]
    if len(_case_folded_compares(fx)) != 1:
        raise AnalysisError("J9 self-check failed on its fixture")
    n = 0
    for fi in fa.parser_functions:
        # a keyword recognised by its first letters: `rest.startswith("dn")` also takes `dnSubtreeMatch` for the marker
        for c in walk_no_nested(fi.node):
            lit = None
            if isinstance(c, ast.Call) and isinstance(c.func, ast.Attribute) and c.func.attr == "startswith" and c.args and isinstance(c.args[0], ast.Constant) and \
                    isinstance(c.args[0].value, (str, bytes)):
                lit = c.args[0].value
            elif isinstance(c, ast.Compare) and len(c.ops) == 1 and isinstance(c.ops[0], (ast.Eq, ast.NotEq)) and isinstance(c.left, ast.Subscript) and \
                    isinstance(c.left.slice, ast.Slice) and c.left.slice.lower is None and isinstance(c.comparators[0], ast.Constant) and isinstance(c.comparators[0].value, (str, bytes)):
                lit = c.comparators[0].value
            if lit is None:
                continue
            txt = lit.decode("latin-1") if isinstance(lit, bytes) else lit
            if txt.isalpha():
                run.ob("J9-markers-compared-exactly", False, {"function": fi.name, "prefix_test": norm(c)[:60]})
                run.fail(Finding("J9-markers-compared-exactly", fi.qualname, norm(c)[:80],
                                 f"{fi.name} recognises the keyword {txt!r} by prefix (`{norm(c)[:60]}`): a longer name that starts with it (a matching rule such as "
                                 f"`{txt}SubtreeMatch`) is cut in two, so that filter does not parse back to itself", model.loc(fi.module, c)))
        n += 1
        bad = _case_folded_compares(fi.node)
        run.ob("J9-markers-compared-exactly", not bad, {"function": fi.name})
        for c in bad:
            run.fail(Finding("J9-markers-compared-exactly", fi.qualname, norm(c)[:80],
                             f"{fi.name} decides `{norm(c)[:80]}` on case-folded text: a spelling the serialiser never writes is taken for the marker, although with that "
                             "spelling it is a valid name of its own (an extensible match with rule `DN` no longer parses back to itself)", model.loc(fi.module, c)))
    run.floor("filter string parser functions", n, 4)


def serialisers_are_pure(model: Model, run: Run) -> None:
    """J11: `__str__` of a filter class (and the module-level serialising helper) is a function of the fields as they are now:
    it stores nothing on the instance and reads no instance dictionary.  The classes are frozen but hold mutable lists, so a
    remembered rendering goes stale and `from_string(str(f))` no longer equals f."""
    n = 0
    targets = []
    for cq in model.subclasses(f"{FILTER}.LDAPFilter"):
        m_ = model.find_method(cq, "__str__")
        if m_ is not None:
            targets.append(m_)
    for fi in targets:
        n += 1
        bad = None
        for x in ast.walk(fi.node):
            if isinstance(x, ast.Attribute) and x.attr == "__dict__":
                bad = f"`{norm(x)}` (the instance dictionary)"
            elif isinstance(x, ast.Attribute) and isinstance(x.ctx, (ast.Store, ast.Del)) and isinstance(x.value, ast.Name) and x.value.id == "self":
                bad = f"assignment to `{norm(x)}`"
            elif isinstance(x, ast.Call) and norm(x.func) in ("object.__setattr__", "setattr", "vars"):
                bad = f"`{norm(x)[:50]}`"
            elif isinstance(x, (ast.Global, ast.Nonlocal)):
                bad = "global state"
            elif isinstance(x, ast.FunctionDef) and x is fi.node and any(norm(d).split("(")[0].split(".")[-1] in ("lru_cache", "cache", "cached_property") for d in x.decorator_list):
                bad = "a memoising decorator"
            if bad:
                break
        run.ob("J11-serialisers-are-pure", bad is None, {"method": fi.qualname.split("sansldap.")[-1]})
        if bad:
            run.fail(Finding("J11-serialisers-are-pure", fi.qualname, bad[:80],
                             f"{fi.qualname.split('sansldap.')[-1]} uses {bad}: the text of a filter must be computed from its current fields every time "
                             "(sub-filter lists are mutable), otherwise it stops matching the object", model.loc(fi.module, fi.node)))
    run.floor("filter __str__ methods", n, 8)


def components_rendered_as_held(model: Model, run: Run, rule: str = "J13-components-rendered-as-held") -> None:
    """J13: a filter's text shows every element of its list fields, in order: the serialisers (and the module helpers they are
    split into) never push a collection through set()/sorted()/reversed()/filter()/dict.fromkeys() or a comprehension with a
    condition.  FilterAnd([a, a]) and FilterAnd([a]) are different values; a text that merges them cannot be parsed back to
    the filter it came from."""
    from ..anchors import reachable
    LOSSY = {"set", "frozenset", "sorted", "reversed", "filter"}
    seen = {}
    for cq in model.subclasses(f"{FILTER}.LDAPFilter"):
        m_ = model.find_method(cq, "__str__")
        if m_ is not None:
            for f_ in reachable(model, m_, FILTER):
                if not isinstance(f_.node, ast.Lambda):
                    seen[f_.qualname] = f_
    n = 0
    list_fields = set()
    for cq in model.subclasses(f"{FILTER}.LDAPFilter"):
        for f in model.dataclass_fields(cq):
            if f.annotation is not None and any(k in norm(f.annotation) for k in ("List[", "Sequence[", "Iterable[", "Set[", "Tuple[")):
                list_fields.add(f.name)
    for fq, fi in sorted(seen.items()):
        n += 1
        bad = None
        coll_params = {a.arg for a in fi.node.args.posonlyargs + fi.node.args.args + fi.node.args.kwonlyargs
                       if a.annotation is not None and any(k in norm(a.annotation) for k in ("List[", "Sequence[", "Iterable[", "Set[", "Iterator[", "Collection["))}

        def from_collection(e: ast.AST) -> bool:
            return any((isinstance(y, ast.Attribute) and isinstance(y.value, ast.Name) and y.value.id == "self" and y.attr in list_fields) or
                       (isinstance(y, ast.Name) and y.id in coll_params) for y in ast.walk(e))
        for x in ast.walk(fi.node):
            if isinstance(x, ast.Call):
                fn = norm(x.func)
                if (fn in LOSSY or fn.endswith(".fromkeys") or fn.split(".")[-1] in ("groupby", "unique_everseen")) and x.args and any(from_collection(a) for a in x.args):
                    bad = x
            elif isinstance(x, (ast.ListComp, ast.GeneratorExp, ast.SetComp, ast.DictComp)) and (any(g.ifs for g in x.generators) or isinstance(x, (ast.SetComp, ast.DictComp))):
                if any(from_collection(g.iter) for g in x.generators):
                    bad = x
            elif isinstance(x, ast.Subscript) and isinstance(x.slice, ast.Slice) and isinstance(x.ctx, ast.Load) and from_collection(x.value) and \
                    isinstance(x.value, (ast.Name, ast.Attribute)):
                bad = x
            if bad is not None:
                break
        run.ob(rule, bad is None, {"function": fq.split("sansldap.")[-1]})
        if bad is not None:
            run.fail(Finding(rule, fq, norm(bad)[:80], f"{fq.split('sansldap.')[-1]} renders `{norm(bad)[:70]}`: elements of a collection can be dropped, merged or reordered on the way "
                             "to the text, so the parsed filter has different components than the one that was serialised", model.loc(fi.module, bad)))
    run.floor("filter serialising functions", n, 6)


def no_size_based_rejection(model: Model, run: Run) -> None:
    """J12: the parser refuses a filter for its syntax, never for how many structural characters it contains or for an
    interpreter limit consulted up front: `text.count("(")` measures the number of nodes, not nesting, so a wide but shallow
    filter (which str() produces for a long OR) would no longer parse back."""
    from ..anchors import filt as filter_anchors
    from ..srcmodel import dominating_literals
    fa = filter_anchors(model)
    n = 0
    for fi in fa.parser_functions + [fa.entry]:
        for r in walk_no_nested(fi.node):
            if not isinstance(r, ast.Raise):
                continue
            n += 1
            bad = [l for l in dominating_literals(fi.node, r) if ".count(" in l or "getrecursionlimit" in l]
            run.ob("J12-no-rejection-by-size", not bad, {"function": fi.name, "line": r.lineno})
            if bad:
                run.fail(Finding("J12-no-rejection-by-size", fi.qualname, bad[0][:80],
                                 f"{fi.name} raises when `{bad[0][:70]}`: a count of characters / an interpreter limit, not the structure of the text, decides; "
                                 "filters of any fan-out must parse back", model.loc(fi.module, r)))
    run.floor("raise statements in the filter string parser and its entry", n, 10)


def empty_values_accepted(model: Model, run: Run) -> None:
    """J10: an assertion value may be empty (`(cn=)` is what str() writes for value b""), so no syntax error is raised under a
    test that the value's extent is zero.  The value is followed back from the `value=` / substring arguments of the filter
    constructors through assignments and calls to the slice of the input it was cut from."""
    from ..anchors import filt as filter_anchors
    from ..srcmodel import dominating_literals
    fa = filter_anchors(model)
    filt_classes = set(model.subclasses(f"{FILTER}.LDAPFilter", strict=True))
    n_val = 0
    n_raise = 0
    for fi in fa.parser_functions:
        binds: Dict[str, List[ast.expr]] = {}
        for a in walk_no_nested(fi.node):
            if isinstance(a, (ast.Assign, ast.AnnAssign)) and a.value is not None:
                for t_ in (a.targets if isinstance(a, ast.Assign) else [a.target]):
                    if isinstance(t_, ast.Name):
                        binds.setdefault(t_.id, []).append(a.value)
        # backwards from the constructor arguments that carry assertion octets
        names: Set[str] = set()
        todo: List[ast.expr] = []
        for c in walk_no_nested(fi.node):
            if isinstance(c, ast.Call) and isinstance(c.func, (ast.Name, ast.Attribute)):
                q = model.resolve_name(fi.module, norm(c.func))
                if q in filt_classes:
                    bf = set(bytes_fields(model, q))
                    fields = [f.name for f in model.dataclass_fields(q) if f.init]
                    for fname, arg in list(zip(fields, c.args)) + [(k.arg, k.value) for k in c.keywords if k.arg]:
                        if fname in bf:
                            todo.append(arg)
        seen = set()
        while todo:
            e = todo.pop()
            for x in ast.walk(e):
                if isinstance(x, ast.Name) and x.id not in seen:
                    seen.add(x.id)
                    if x.id in binds:
                        names.add(x.id)
                        todo.extend(binds[x.id])
        if not names:
            continue
        n_val += 1
        # extents: L in  <view>[a : a + L]  /  <view>[a:b] with b = a + L, for a value name
        extents: Set[str] = set()
        for nm in names:
            for b in binds.get(nm, []):
                for x in ast.walk(b):
                    if isinstance(x, ast.Subscript) and isinstance(x.slice, ast.Slice) and x.slice.upper is not None:
                        up = x.slice.upper
                        if isinstance(up, ast.BinOp) and isinstance(up.op, ast.Add):
                            for side in (up.left, up.right):
                                if isinstance(side, ast.Name) and (x.slice.lower is None or norm(side) != norm(x.slice.lower)):
                                    extents.add(side.id)

        def emptiness(l: str) -> Optional[str]:
            e = ast.parse(l, mode="eval").body
            neg = False
            if isinstance(e, ast.UnaryOp) and isinstance(e.op, ast.Not):
                neg, e = True, e.operand
            if neg and isinstance(e, ast.Name) and e.id in names | extents:
                return e.id
            if neg and isinstance(e, ast.Call) and norm(e.func) == "len" and e.args and isinstance(e.args[0], ast.Name) and e.args[0].id in names:
                return e.args[0].id
            if not neg and isinstance(e, ast.Compare) and len(e.ops) == 1:
                a, b, op = e.left, e.comparators[0], e.ops[0]
                for x, y, flip in ((a, b, False), (b, a, True)):
                    who = x.id if isinstance(x, ast.Name) and x.id in extents else \
                        x.args[0].id if isinstance(x, ast.Call) and norm(x.func) == "len" and x.args and isinstance(x.args[0], ast.Name) and x.args[0].id in names else None
                    if who and isinstance(y, ast.Constant) and isinstance(y.value, int):
                        k = y.value
                        t_ = type(op)
                        if flip:
                            t_ = {ast.Lt: ast.Gt, ast.Gt: ast.Lt, ast.LtE: ast.GtE, ast.GtE: ast.LtE}.get(t_, t_)
                        if (t_ is ast.Eq and k == 0) or (t_ is ast.Lt and k == 1) or (t_ is ast.LtE and k == 0):
                            return who
                    if isinstance(x, ast.Name) and x.id in names and isinstance(y, ast.Constant) and y.value in (b"", "") and isinstance(op, ast.Eq):
                        return x.id
            return None
        for r in walk_no_nested(fi.node):
            if isinstance(r, ast.Raise):
                n_raise += 1
                hits = [(l, emptiness(l)) for l in dominating_literals(fi.node, r)]
                hits = [(l, w) for l, w in hits if w]
                run.ob("J10-empty-assertion-value-accepted", not hits, {"function": fi.name, "raise_line": r.lineno})
                for l, w in hits:
                    run.fail(Finding("J10-empty-assertion-value-accepted", fi.qualname, l[:80],
                                     f"{fi.name} raises a syntax error when `{l[:60]}`: `{w}` is the extent of an assertion value, and the empty value is valid "
                                     "(str() writes `(attr=)` for it), so such a filter no longer parses back", model.loc(fi.module, r)))
    run.floor("parser functions building filters with assertion values", n_val, 1)
    total_raises = sum(1 for f_ in fa.parser_functions for r in walk_no_nested(f_.node) if isinstance(r, ast.Raise))
    run.coverage["raises_in_value_building_functions"] = n_raise
    run.floor("raise statements in the filter string parser", total_raises, 10)


def no_default_for_empty_text(model: Model, run: Run, rule: str = "J15-empty-text-is-a-value") -> None:
    """J15: in the filter string parser, `<text> or <other>` with <text> a bytes / str value that cannot be None replaces an
    *empty* piece of the input by something else.  Empty assertion values, empty initial / final substrings and empty
    attribute options are all legal input; swapping one for a fallback changes which filter the text denotes."""
    from ..anchors import filt as filter_anchors
    from .c05 import may_raise
    r = may_raise(model).r
    fa = filter_anchors(model)
    n = 0
    for fi in fa.parser_functions:
        for x in walk_no_nested(fi.node):
            if not (isinstance(x, ast.BoolOp) and isinstance(x.op, ast.Or) and len(x.values) >= 2):
                continue
            left = x.values[0]
            try:
                t = r.type_of(left, fi)
            except Exception:
                continue
            if t not in (("prim", "bytes"), ("prim", "str"), ("prim", "bytearray"), ("prim", "memoryview"), ("prim", "strlike"), ("prim", "byteslike")):
                continue
            if isinstance(left, ast.Constant):
                continue
            # only where the result is used as a value (an operand of a test is a truth test, which is fine)
            n += 1
            run.ob(rule, False, {"function": fi.name, "expression": norm(x)[:60]})
            run.fail(Finding(rule, fi.qualname, norm(x)[:80], f"{fi.name} evaluates `{norm(x)[:70]}`: the left side is {t[1]} text that is never None, so the fallback is taken exactly when that "
                             "piece of the input is empty - a legal value that now parses as something else", model.loc(fi.module, x)))
    run.ob(rule, True, {"parser_functions": len(fa.parser_functions), "sites": n})


def delimiter_scans_start_at_the_first_octet(model: Model, run: Run, rule: str = "J17-delimiter-scan-covers-the-first-octet") -> None:
    """J17: a counted loop of the filter string parser that looks for a structural character (`)`, `(`, `=`, `*`) by indexing
    the input with its counter starts at 0: started at 1 it never looks at the first octet, which is where the delimiter is
    when the piece in front of it is empty (`(a=)`)."""
    from ..anchors import filt as filter_anchors
    fa = filter_anchors(model)
    DELIMS = {")", "(", "=", "*", b")", b"(", b"=", b"*", 40, 41, 42, 61}
    n = 0
    for fi in fa.parser_functions:
        for lp in walk_no_nested(fi.node):
            if not (isinstance(lp, ast.For) and isinstance(lp.target, ast.Name) and isinstance(lp.iter, ast.Call) and isinstance(lp.iter.func, ast.Name) and lp.iter.func.id == "range"):
                continue
            i = lp.target.id
            looks = False
            for c in ast.walk(lp):
                if isinstance(c, ast.Compare) and len(c.ops) == 1 and isinstance(c.ops[0], (ast.Eq, ast.NotEq, ast.In, ast.NotIn)):
                    sides = [c.left, c.comparators[0]]
                    lit = any((isinstance(x, ast.Constant) and x.value in DELIMS) or
                              (isinstance(x, (ast.Tuple, ast.List, ast.Set)) and any(isinstance(y, ast.Constant) and y.value in DELIMS for y in x.elts)) for x in sides)
                    idx = any(isinstance(y, ast.Subscript) and any(isinstance(z, ast.Name) and z.id == i for z in ast.walk(y.slice)) for x in sides for y in ast.walk(x))
                    if lit and idx:
                        looks = True
            if not looks:
                continue
            n += 1
            a = lp.iter.args
            start = a[0] if len(a) >= 2 else None
            ok = start is None or (isinstance(start, ast.Constant) and start.value == 0)
            run.ob(rule, ok, {"function": fi.name, "loop": norm(lp.iter)[:50]})
            if not ok:
                run.fail(Finding(rule, fi.qualname, norm(lp.iter)[:80], f"{fi.name} scans for a delimiter with `for {i} in {norm(lp.iter)[:40]}`: the octet at index 0 is never looked at, so an "
                                 "empty piece in front of the delimiter (an empty assertion value) is mis-scanned", model.loc(fi.module, lp)))
    run.ob(rule, True, {"delimiter_scans": n})


def delimiter_searches_stay_in_their_piece(model: Model, run: Run, rule: str = "J22-delimiter-search-stays-in-its-piece") -> None:
    """J22: a search for a structural character with explicit bounds (`buf.find(b"*", lo, hi)`, `.index`, `.count`, `.rfind`) looks at
    one piece of the text - a piece the function also cuts out as a slice `buf[lo:hi]` with the same bounds - or at a prefix of
    such a piece (`hi` itself found by an earlier search).  A search whose upper bound is the end of the *enclosing* text finds a
    character that belongs to a later sibling, and the piece in front of it is then read as something it is not (an equality
    value taken for a substrings pattern because a `*` follows somewhere)."""
    from ..anchors import filt as filter_anchors
    fa = filter_anchors(model)
    DELIMS = {")", "(", "=", "*", b")", b"(", b"=", b"*"}
    n = 0
    for fi in fa.parser_functions:
        slices = {(norm(x.slice.lower) if x.slice.lower is not None else "", norm(x.slice.upper) if x.slice.upper is not None else "")
                  for x in ast.walk(fi.node) if isinstance(x, ast.Subscript) and isinstance(x.slice, ast.Slice) and x.slice.step is None}
        # names bound from an earlier bounded search: the end of a piece found on the way
        found_by_search = {t_.id for a in ast.walk(fi.node) if isinstance(a, ast.Assign) and isinstance(a.value, ast.Call) and isinstance(a.value.func, ast.Attribute) and
                           a.value.func.attr in ("find", "index", "rfind", "rindex") for t_ in a.targets if isinstance(t_, ast.Name)}
        for c in ast.walk(fi.node):
            if not (isinstance(c, ast.Call) and isinstance(c.func, ast.Attribute) and c.func.attr in ("find", "index", "rfind", "rindex", "count") and len(c.args) == 3 and
                    isinstance(c.args[0], ast.Constant) and c.args[0].value in DELIMS):
                continue
            n += 1
            lo, hi = norm(c.args[1]), norm(c.args[2])
            ok = (lo, hi) in slices or (isinstance(c.args[2], ast.Name) and c.args[2].id in found_by_search and any(l_ == lo for l_, _h in slices))
            # the search that *defines* a piece: its result becomes the upper bound of a slice starting at the same lower bound
            tgt = next((t_.id for a in ast.walk(fi.node) if isinstance(a, ast.Assign) and a.value is c for t_ in a.targets if isinstance(t_, ast.Name)), None)
            if not ok and tgt is not None and any(l_ == lo and h_ == tgt for l_, h_ in slices):
                ok = True
            run.ob(rule, ok, {"function": fi.name, "search": norm(c)[:70]})
            if not ok:
                run.fail(Finding(rule, fi.qualname, norm(c)[:80], f"{fi.name} looks for {c.args[0].value!r} with `{norm(c)[:60]}`: no piece of the text is cut out with these bounds, so the "
                                 "search runs on into what follows the piece and a character of a later sibling decides how this piece is read", model.loc(fi.module, c)))
    run.ob(rule, True, {"bounded_delimiter_searches": n})


def operator_agreement(model: Model, run: Run) -> None:
    """J8: sibling cross-check of the two operator tables. The text __str__ writes around attribute and value ("(&", ">=",
    "~=", ":=" ...) starts with the character under which the string parser builds that very class (`filter_type == '>'`,
    `complex_type == '!'`): a swap on either side makes text -> filter -> text change the kind of filter."""
    from ..anchors import filt as filter_anchors
    from ..srcmodel import dominating_literals
    import re as _re
    fa = filter_anchors(model)
    # parser side: class -> set of characters whose equality test dominates `return Class(...)`
    built: Dict[str, Set[str]] = {}
    fallthrough: Dict[str, List[str]] = {}
    for fi in fa.parser_functions:
        for r in walk_no_nested(fi.node):
            if not (isinstance(r, ast.Return) and r.value is not None):
                continue
            for c in ast.walk(r.value):
                if isinstance(c, ast.Call) and isinstance(c.func, ast.Name) and model.resolve_name(FILTER, c.func.id) in model.classes and \
                        model.is_subclass(model.resolve_name(FILTER, c.func.id), f"{FILTER}.LDAPFilter"):
                    lits = dominating_literals(fi.node, r)
                    chars = set()
                    for l in lits:
                        m_ = _re.fullmatch(r"(\w+) == '(.)'", l)
                        if m_:
                            chars.add(m_.group(2))
                    built.setdefault(c.func.id, set()).update(chars)
                    if not chars:
                        fallthrough.setdefault(c.func.id, []).extend(l for l in lits if "!=" in l)
    # ... or picks the class from a table keyed by that character: {">": FilterGreaterOrEqual, ...}[t](...) / .get(t, Default)(...)
    from .c05 import may_raise
    rz = may_raise(model).r

    def class_in(v: ast.expr) -> Optional[str]:
        if isinstance(v, ast.Lambda):
            v = v.body
        for x in ast.walk(v):
            nm = x.func.id if isinstance(x, ast.Call) and isinstance(x.func, ast.Name) else x.id if isinstance(x, ast.Name) else None
            if nm and model.resolve_name(FILTER, nm) in model.classes and model.is_subclass(model.resolve_name(FILTER, nm), f"{FILTER}.LDAPFilter"):
                return nm
        return None
    for fi in fa.parser_functions:
        for c in walk_no_nested(fi.node):
            if isinstance(c, ast.Call) and isinstance(c.func, (ast.Subscript, ast.Call)):
                try:
                    t0 = rz.type_of(c.func, fi)
                except Exception:
                    continue
                if t0[0] != "dictget" or t0[1][0] != "dictlit":
                    continue
                d = t0[1][2]
                keys = [k.value for k in d.keys if isinstance(k, ast.Constant) and isinstance(k.value, str) and len(k.value) == 1]
                if len(keys) != len(d.keys):
                    continue
                for k, v in zip(keys, d.values):
                    cn = class_in(v)
                    if cn:
                        built.setdefault(cn, set()).add(k)
                if len(t0) > 2 and t0[2] is not None:
                    cn = class_in(t0[2])
                    if cn:
                        built.setdefault(cn, set())
                        fallthrough.setdefault(cn, []).extend(f"_ != '{k}'" for k in keys)
    n = 0
    for cq in model.subclasses(f"{FILTER}.LDAPFilter", strict=True):
        c = model.classes[cq]
        strm = model.find_method(cq, "__str__")
        if strm is None:
            continue
        rets = [r for r in walk_no_nested(strm.node) if isinstance(r, ast.Return) and r.value is not None]
        if len(rets) != 1:
            continue
        tpl = str_template(model, strm, rets[0].value, 0, cq)
        if tpl is None:
            continue
        consts = [(i, p_) for i, p_ in enumerate(tpl) if p_ is not None]
        if not consts or not consts[0][1].startswith("("):
            continue
        first = consts[0][1]
        if len(first) > 1:
            op = first[1:]             # "(&", "(|", "(!"
        else:
            op = consts[1][1] if len(consts) > 1 else ""      # the text after the attribute: "=", ">=", "~=", ":=", "=*)"
        chars = built.get(c.name)
        if chars is None:
            continue
        n += 1
        if chars:
            ok = len(chars) == 1 and op.startswith(next(iter(chars)))
            why = f"the parser builds {c.name} under {sorted(chars)} but __str__ writes {op!r}"
        else:
            # built in a fall-through branch: the operator written must be none of the characters excluded on the way there
            # (`complex_type != '!'`, `filter_type != '>'` ...); for the simple filters that leaves the plain '='
            excluded = set()
            for l in fallthrough.get(c.name, []):
                m_ = _re.fullmatch(r"(\w+) != '(.)'", l)
                if m_:
                    excluded.add(m_.group(2))
            ok = bool(op) and op[0] not in excluded and (op.startswith("=") or (len(first) > 1 and bool(excluded)))
            why = f"the parser builds {c.name} in the branch that excludes {sorted(excluded)} but __str__ writes {op!r}"
        run.ob("J8-operator-tables-agree", ok, {"class": c.name, "parser_chars": sorted(chars), "str_operator": op})
        if not ok:
            run.fail(Finding("J8-operator-tables-agree", cq, f"parser={sorted(chars)} str={op}", why + ": the text form parses back as a different kind of filter", model.loc(FILTER, strm.node)))
    run.floor("filter classes with an operator in both tables", n, 8)


def str_template(model: Model, fi, e: ast.expr, depth: int = 0, cls_q: Optional[str] = None):
    """The text shape an expression produces: a list of constant chunks (str) and holes (None).  f-strings directly; a call to a
    module-level helper whose body is `return f"..."` with its parameters replaced by the arguments (constant arguments stay
    constant).  None when the expression is something else."""
    parts = None
    if isinstance(e, ast.JoinedStr):
        parts = []
        for p in e.values:
            if isinstance(p, ast.Constant) and isinstance(p.value, str):
                parts.append(p.value)
                continue
            # {self.<NAME>} where NAME is a string constant of the concrete class (an operator / symbol kept as a class attribute)
            v = p.value if isinstance(p, ast.FormattedValue) and p.format_spec is None and p.conversion == -1 else None
            if cls_q and isinstance(v, ast.Attribute) and isinstance(v.value, ast.Name) and v.value.id in ("self", "cls"):
                cc = model.class_const(cls_q, v.attr)
                if cc is not None and isinstance(cc[1], ast.Constant) and isinstance(cc[1].value, str):
                    parts.append(cc[1].value)
                    continue
            parts.append(None)
    elif isinstance(e, ast.Call) and isinstance(e.func, ast.Name) and depth < 3:
        q = model.resolve_name(fi.module, e.func.id)
        hf = model.functions.get(q) if q else None
        if hf is None or hf.cls is not None or isinstance(hf.node, ast.Lambda):
            return None
        body = [b for b in hf.node.body if not (isinstance(b, ast.Expr) and isinstance(b.value, ast.Constant))]
        if len(body) != 1 or not isinstance(body[0], ast.Return) or not isinstance(body[0].value, ast.JoinedStr):
            return None
        ps = hf.params()
        bound = {ps[i]: a for i, a in enumerate(e.args) if i < len(ps)}
        bound.update({k.arg: k.value for k in e.keywords if k.arg in ps})
        parts = []
        for p in body[0].value.values:
            if isinstance(p, ast.Constant) and isinstance(p.value, str):
                parts.append(p.value)
            elif isinstance(p, ast.FormattedValue) and isinstance(p.value, ast.Name) and p.value.id in bound and isinstance(bound[p.value.id], ast.Constant) \
                    and isinstance(bound[p.value.id].value, str) and p.format_spec is None:
                parts.append(bound[p.value.id].value)
            else:
                parts.append(None)
    if parts is None:
        return None
    out = []
    for p in parts:
        if p is not None and out and out[-1] is not None:
            out[-1] += p
        else:
            out.append(p)
    return out
