"""C17 - schema text is parsed as RFC 4512 defines it (acceptance by the regex stage: exact; totality; group names)."""
from __future__ import annotations

import ast
from typing import Dict, List

from ..raises import exc_is_sub
from ..report import Finding, Run
from ..rx import rfc
from ..rx.lang import Lang, difference_witness
from ..rx.nfa import build
from ..rx.sites import find_sites
from ..srcmodel import AnalysisError, Model, norm, walk_no_nested
from .c05 import may_raise
from .c16 import unescape_single_pass

SCHEMA = "sansldap.schema"
CLASSES = {
    "ObjectClassDescription": ("OBJECT_CLASS_DESCRIPTION", rfc.OBJECT_CLASS),
    "AttributeTypeDescription": ("ATTRIBUTE_TYPE_DESCRIPTION", rfc.ATTRIBUTE_TYPE),
    "DITContentRuleDescription": ("DIT_CONTENT_RULE_DESCRIPTION", rfc.DIT_CONTENT_RULE),
}


def show(codes: List[int]) -> str:
    return "".join(chr(c) if 0x20 <= c < 0x7F else f"\\x{c:02x}" if c < 256 else f"\\u{c:04x}" for c in codes)


def check(model: Model, run: Run) -> None:
    mr = may_raise(model)
    run.explanation = ("(1) the three RFC 4512 description grammars (plus the quoted SYNTAX variant) are regular; each is transcribed independently as a reference "
                       "automaton and L(RFC) <= L(pattern as used by .match) is decided exactly by on-the-fly subset construction with a shortest counter-example: "
                       "this covers every sentence and every spacing choice; (2) may-raise analysis of the three from_string: only ValueError (and subclasses) can leave; "
                       "(3) every m.group(name) names a group of the folded pattern; (4) the qdstring un-escaper decodes in one simultaneous pass. "
                       "NOT decided: that the fields extracted after the regex stage (strip/split code) equal what the grammar denotes")
    sites = {s.name: s for s in find_sites(model) if s.module == SCHEMA}
    for cname, (pname, ref_pat) in CLASSES.items():
        q = f"{SCHEMA}.{cname}.from_string"
        fi = model.func(q)
        # which pattern does from_string match against?
        used = [s for s in find_sites(model) if s.func == q and s.api == "match" and s.name != "NOIDLEN_MATCH"]
        if len(used) != 1:
            raise AnalysisError(f"{q}: expected exactly one description pattern match, found {len(used)}")
        s = used[0]
        code = Lang(build(s.pattern, s.flags, "match"))
        ref = Lang(build(ref_pat, 0, "fullmatch"))
        w = difference_witness(ref, code)
        run.ob("G1-accepts-every-rfc-sentence", w is None, {"class": cname, "pattern": s.name, "positions": len(code.nfa.positions), "reference_positions": len(ref.nfa.positions),
                                                            "rejected_valid_sentence": show(w) if w else None})
        if w is not None:
            run.fail(Finding("G1-accepts-every-rfc-sentence", f"{SCHEMA}.{s.name}", f"witness:{show(w)}",
                             f"{cname}.from_string rejects the RFC 4512-valid definition {show(w)!r}: the regular expression {s.name} does not cover the grammar",
                             model.loc(SCHEMA, s.node), [f"shortest valid sentence not matched: {show(w)!r}"]))
        # group names
        groups = set(code.nfa.groups)
        n = 0
        from ..rx.sites import group_accesses
        for c, recv, gname in group_accesses(fi.node):
            # which match object? the one bound from this pattern's match (others, e.g. NOIDLEN_MATCH, are checked against their own pattern)
            pat_for_recv = pattern_of_match_var(model, fi, recv)
            gset = groups if pat_for_recv is None or pat_for_recv == s.name else set(Lang(build(sites[pat_for_recv].pattern, sites[pat_for_recv].flags, "match")).nfa.groups) if pat_for_recv in sites else groups
            n += 1
            ok = gname in gset
            run.ob("G2-group-names-exist", ok, {"class": cname, "group": gname})
            if not ok:
                run.fail(Finding("G2-group-names-exist", q, f"group({gname!r})", f"m.group({gname!r}) names no group of the pattern: IndexError at run time", model.loc(SCHEMA, c)))
        run.floor(f"group accesses in {cname}.from_string", n, 8)
        # totality
        escs = mr.escapes(q, None)
        for e in sorted(escs, key=lambda e: (e.exc, e.func, e.line)):
            ok = exc_is_sub(model, e.exc, "ValueError")
            run.ob("G3-only-valueerror", ok, None if ok else {"exception": e.exc, "origin": e.short()})
            if not ok:
                run.fail(Finding("G3-only-valueerror", e.func, f"{e.exc.split('.')[-1]}|{e.text[:80]}",
                                 f"{e.exc.split('.')[-1]} can leave {cname}.from_string: raised at `{e.text[:80]}` ({e.kind}{'; ' + e.why if e.why else ''}); the property allows only ValueError",
                                 f"{model.relpath(SCHEMA)}:{e.line}", [e.short()]))
    if mr.unknown_calls:
        raise AnalysisError("unresolved call sites on the schema from_string paths: " + "; ".join(sorted(set(mr.unknown_calls))[:5]))
    unescape_single_pass(model, run)


def pattern_of_match_var(model: Model, fi, var: str):
    for n in walk_no_nested(fi.node):
        if isinstance(n, ast.Assign) and any(isinstance(t, ast.Name) and t.id == var for t in n.targets) and isinstance(n.value, ast.Call):
            c = n.value
            if isinstance(c.func, ast.Attribute) and c.func.attr in ("match", "fullmatch", "search"):
                if norm(c.func.value) == "re" and c.args:
                    return norm(c.args[0])
                return norm(c.func.value)
    return None
