"""C17 - schema text is parsed as RFC 4512 defines it (acceptance by the regex stage: exact; totality; group names)."""
from __future__ import annotations

import ast
from typing import Dict, List

from ..raises import exc_is_sub
from ..report import Finding, Run
from ..rx import rfc
from ..rx.lang import Lang, difference_witness
from ..rx.nfa import build
from ..rx.sites import find_sites
from ..srcmodel import AnalysisError, Model, norm, walk_no_nested
from .c05 import may_raise
from .c16 import unescape_single_pass

SCHEMA = "sansldap.schema"
CLASSES = {
    "ObjectClassDescription": ("OBJECT_CLASS_DESCRIPTION", rfc.OBJECT_CLASS),
    "AttributeTypeDescription": ("ATTRIBUTE_TYPE_DESCRIPTION", rfc.ATTRIBUTE_TYPE),
    "DITContentRuleDescription": ("DIT_CONTENT_RULE_DESCRIPTION", rfc.DIT_CONTENT_RULE),
}


def show(codes: List[int]) -> str:
    return "".join(chr(c) if 0x20 <= c < 0x7F else f"\\x{c:02x}" if c < 256 else f"\\u{c:04x}" for c in codes)


def check(model: Model, run: Run) -> None:
    mr = may_raise(model)
    run.explanation = ("(1) the three RFC 4512 description grammars (plus the quoted SYNTAX variant) are regular; each is transcribed independently as a reference "
                       "automaton and L(RFC) <= L(pattern as used by .match) is decided exactly by on-the-fly subset construction with a shortest counter-example: "
                       "this covers every sentence and every spacing choice; (2) may-raise analysis of the three from_string: only ValueError (and subclasses) can leave; "
                       "(3) every m.group(name) names a group of the folded pattern; (4) the qdstring un-escaper decodes in one simultaneous pass. "
                       "NOT decided: that the fields extracted after the regex stage (strip/split code) equal what the grammar denotes")
    sites = {s.name: s for s in find_sites(model, (SCHEMA,)) if s.module == SCHEMA}
    for cname, (pname, ref_pat) in CLASSES.items():
        q = f"{SCHEMA}.{cname}.from_string"
        fi = model.func(q)
        # which pattern does from_string match against?
        used = [s for s in find_sites(model, (SCHEMA,)) if s.func == q and s.api == "match" and s.name != "NOIDLEN_MATCH"]
        if len(used) != 1:
            raise AnalysisError(f"{q}: expected exactly one description pattern match, found {len(used)}")
        s = used[0]
        code = Lang(build(s.pattern, s.flags, "match"))
        ref = Lang(build(ref_pat, 0, "fullmatch"))
        w = difference_witness(ref, code)
        run.ob("G1-accepts-every-rfc-sentence", w is None, {"class": cname, "pattern": s.name, "positions": len(code.nfa.positions), "reference_positions": len(ref.nfa.positions),
                                                            "rejected_valid_sentence": show(w) if w else None})
        if w is not None:
            run.fail(Finding("G1-accepts-every-rfc-sentence", f"{SCHEMA}.{s.name}", f"witness:{show(w)}",
                             f"{cname}.from_string rejects the RFC 4512-valid definition {show(w)!r}: the regular expression {s.name} does not cover the grammar",
                             model.loc(SCHEMA, s.node), [f"shortest valid sentence not matched: {show(w)!r}"]))
        # group names
        groups = set(code.nfa.groups)
        n = 0
        from ..rx.sites import group_accesses
        for c, recv, gname in group_accesses(fi.node):
            # which match object? the one bound from this pattern's match (others, e.g. NOIDLEN_MATCH, are checked against their own pattern)
            pat_for_recv = pattern_of_match_var(model, fi, recv)
            gset = groups if pat_for_recv is None or pat_for_recv == s.name else set(Lang(build(sites[pat_for_recv].pattern, sites[pat_for_recv].flags, "match")).nfa.groups) if pat_for_recv in sites else groups
            n += 1
            ok = gname in gset
            run.ob("G2-group-names-exist", ok, {"class": cname, "group": gname})
            if not ok:
                run.fail(Finding("G2-group-names-exist", q, f"group({gname!r})", f"m.group({gname!r}) names no group of the pattern: IndexError at run time", model.loc(SCHEMA, c)))
        run.floor(f"group accesses in {cname}.from_string", n, 8)
        # totality
        escs = mr.escapes(q, None)
        for e in sorted(escs, key=lambda e: (e.exc, e.func, e.line)):
            ok = exc_is_sub(model, e.exc, "ValueError")
            run.ob("G3-only-valueerror", ok, None if ok else {"exception": e.exc, "origin": e.short()})
            if not ok:
                run.fail(Finding("G3-only-valueerror", e.func, f"{e.exc.split('.')[-1]}|{e.text[:80]}",
                                 f"{e.exc.split('.')[-1]} can leave {cname}.from_string: raised at `{e.text[:80]}` ({e.kind}{'; ' + e.why if e.why else ''}); the property allows only ValueError",
                                 f"{model.relpath(SCHEMA)}:{e.line}", [e.short()]))
    if mr.unknown_calls:
        raise AnalysisError("unresolved call sites on the schema from_string paths: " + "; ".join(sorted(set(mr.unknown_calls))[:5]))
    space_tolerant_extraction(model, run)
    extension_cut_positions(model, run)
    # totality includes returning at all: no exponentially ambiguous loop in the description patterns (engine shared with C18)
    from .c18 import ambiguity
    ambiguity(model, run, "G6-no-exponential-backtracking", SCHEMA, 3, 3)
    unescape_single_pass(model, run)
    from .c16 import matched_text_is_the_input
    matched_text_is_the_input(model, run, "G8-definition-text-matched-as-given")
    # "every field of the result equals what the grammar denotes" for *every* parse: a result shared with an earlier parse
    # (a memoised helper, a table the parser writes) stops equalling it as soon as a caller edits one of them
    from .c19 import parse_results_fresh
    parse_results_fresh(model, run, SCHEMA, "G9-parse-results-are-fresh", "what a definition parses to")
    keyword_combinations(model, run)
    normalised_text_is_what_gets_used(model, run)
    every_extension_is_stored(model, run)
    extension_names_kept_as_written(model, run)
    from .c16 import parsed_numbers_kept
    parsed_numbers_kept(model, run, "G11-parsed-zero-is-a-value")
    hooks_store_fields_as_given(model, run, [f"{SCHEMA}.{c}" for c in CLASSES], "G10-results-hold-what-was-parsed",
                                "the definition from_string returns no longer holds, for every input, what the grammar denotes")


def hooks_store_fields_as_given(model: Model, run: Run, classes, rule: str, consequence: str) -> None:
    """A constructor hook (__post_init__, a hand-written __init__, __setattr__) of a value class may keep a private copy of
    what it was given (list(x), dict(x), x.copy(), tuple(x), x[:]) but must not store anything else in a field: the object
    then no longer holds what the parser (or the caller) put in, and equality with the original / with the grammar's
    denotation is lost for the inputs the rewrite changes."""
    COPIES = {"list", "dict", "tuple", "bytes", "frozenset", "set"}
    n = 0
    for q in classes:
        c = model.classes.get(q)
        if c is None:
            continue
        fields = {f.name for f in model.dataclass_fields(q)} if c.is_dataclass else set()
        for hook in ("__post_init__", "__init__", "__setattr__", "__new__"):
            mt = model.find_method(q, hook)
            if mt is None or isinstance(mt.node, ast.Lambda) or mt.cls not in model.classes or mt.module not in (model.classes[q].module,):
                continue
            n += 1
            bad = None

            def is_copy(v: ast.expr, fname: str) -> bool:
                src = (f"self.{fname}", fname)
                if isinstance(v, ast.Call) and isinstance(v.func, ast.Name) and v.func.id in COPIES and len(v.args) == 1 and not v.keywords and norm(v.args[0]) in src:
                    return True
                if isinstance(v, ast.Call) and isinstance(v.func, ast.Attribute) and v.func.attr == "copy" and not v.args and norm(v.func.value) in src:
                    return True
                if isinstance(v, ast.Call) and norm(v.func) in ("copy.copy", "copy.deepcopy") and len(v.args) == 1 and norm(v.args[0]) in src:
                    return True
                if isinstance(v, ast.Subscript) and isinstance(v.slice, ast.Slice) and v.slice.lower is None and v.slice.upper is None and v.slice.step is None and norm(v.value) in src:
                    return True
                if isinstance(v, (ast.Name, ast.Attribute)) and norm(v) in src:
                    return True
                if isinstance(v, ast.IfExp):
                    return is_copy(v.body, fname) and is_copy(v.orelse, fname)
                return False
            for x in walk_no_nested(mt.node):
                fname, val = None, None
                if isinstance(x, ast.Call) and norm(x.func) in ("object.__setattr__", "setattr", "super().__setattr__") and len(x.args) == 3 and norm(x.args[0]) == "self":
                    fname = x.args[1].value if isinstance(x.args[1], ast.Constant) and isinstance(x.args[1].value, str) else "?"
                    val = x.args[2]
                elif isinstance(x, (ast.Assign, ast.AnnAssign)) and x.value is not None:
                    for t_ in (x.targets if isinstance(x, ast.Assign) else [x.target]):
                        if isinstance(t_, ast.Attribute) and isinstance(t_.value, ast.Name) and t_.value.id == "self":
                            fname, val = t_.attr, x.value
                elif isinstance(x, ast.AugAssign) and isinstance(x.target, ast.Attribute) and isinstance(x.target.value, ast.Name) and x.target.value.id == "self":
                    fname, val = x.target.attr, x.value
                    if fname in fields:
                        bad = bad or (x, fname)
                    continue
                elif isinstance(x, ast.Call) and isinstance(x.func, ast.Attribute) and isinstance(x.func.value, ast.Attribute) and norm(x.func.value.value) == "self" \
                        and x.func.value.attr in fields and x.func.attr in ("append", "extend", "insert", "pop", "remove", "clear", "sort", "reverse", "update", "setdefault", "popitem", "discard", "add"):
                    bad = bad or (x, x.func.value.attr)
                    continue
                if fname is None:
                    continue
                if hook == "__setattr__" and fname == "?":
                    continue          # the generic forwarding of __setattr__ itself
                if fname == "?" or (fname in fields and not is_copy(val, fname)):
                    bad = bad or (x, fname)
            run.ob(rule, bad is None, {"class": q.split(".")[-1], "hook": hook})
            if bad is not None:
                x, fname = bad
                run.fail(Finding(rule, mt.qualname, f"{fname}|{norm(x)[:70]}", f"{q.split('sansldap.')[-1]}.{hook} re-writes field `{fname}` (`{norm(x)[:70]}`): {consequence}",
                                 model.loc(mt.module, x)))
    run.coverage.setdefault("constructor_hooks", {})[rule] = n


def normalised_text_is_what_gets_used(model: Model, run: Run, rule: str = "G12-quotes-removed-before-the-text-is-read") -> None:
    """G12: once a piece of the matched text has had its quotes removed into another local (`syntax = raw_syntax.strip("'")`),
    the parse goes on with that local: reading the original again (matching NOIDLEN against the still quoted text, storing
    it) handles the Active Directory quoted-SYNTAX form differently from the bare one."""
    from ..anchors import reachable
    seen = {}
    for cname in CLASSES:
        fi = model.find_method(f"{SCHEMA}.{cname}", "from_string")
        if fi is not None:
            for f_ in reachable(model, fi, SCHEMA):
                if not isinstance(f_.node, ast.Lambda):
                    seen[f_.qualname] = f_
    n = 0
    for fq, fi in sorted(seen.items()):
        for a in walk_no_nested(fi.node):
            if not (isinstance(a, ast.Assign) and len(a.targets) == 1 and isinstance(a.targets[0], ast.Name)):
                continue
            v = a.value
            if not (isinstance(v, ast.Call) and isinstance(v.func, ast.Attribute) and v.func.attr in ("strip", "lstrip", "rstrip") and isinstance(v.func.value, ast.Name)
                    and v.args and isinstance(v.args[0], ast.Constant) and isinstance(v.args[0].value, str) and "'" in v.args[0].value):
                continue
            raw, new = v.func.value.id, a.targets[0].id
            if raw == new:
                continue
            n += 1
            # reads of the quoted original later in the same block (or in blocks nested in it)
            later = None
            for par in ast.walk(fi.node):
                for fld in ("body", "orelse", "finalbody"):
                    blk = getattr(par, fld, None)
                    if isinstance(blk, list) and any(b is a for b in blk):
                        idx = [i for i, b in enumerate(blk) if b is a][0]
                        for b in blk[idx + 1:]:
                            for x in ast.walk(b):
                                if isinstance(x, ast.Name) and x.id == raw and isinstance(x.ctx, ast.Load) and later is None:
                                    later = x
            ok = later is None
            run.ob(rule, ok, {"function": fi.name, "quoted": raw, "unquoted": new})
            if not ok:
                run.fail(Finding(rule, fq, f"{raw}|{new}", f"{fi.name} reads `{raw}` again after its quotes were removed into `{new}`: the quoted and the bare spelling of the same value "
                                 "are parsed differently from there on", model.loc(fi.module, later)))
    run.ob(rule, True, {"dequoting_assignments": n})


def every_extension_is_stored(model: Model, run: Run, rule: str = "G13-every-extension-is-stored") -> None:
    """G13: the extension parser stores an entry for every `X-name` it reads: in the loop over the extension text every
    iteration that completes puts the key into the result (or yields it).  `xstring SP qdstrings` allows an empty list -
    a key that is dropped because its list is empty is a field of the result that differs from what the grammar denotes."""
    from ..props.c07 import must_pass
    from ..rx.sites import group_accesses
    n = 0
    seen = set()
    for cname in CLASSES:
        fi = model.func(f"{SCHEMA}.{cname}.from_string")
        ext_nodes = {id(c) for c, _, g in group_accesses(fi.node) if g == "extensions"}
        ext_vars = {t.id for n_ in ast.walk(fi.node) if isinstance(n_, ast.Assign) and id(n_.value) in ext_nodes for t in n_.targets if isinstance(t, ast.Name)}
        target = None
        for n_ in ast.walk(fi.node):
            if isinstance(n_, ast.Call) and isinstance(n_.func, ast.Name) and n_.args and ((isinstance(n_.args[0], ast.Name) and n_.args[0].id in ext_vars) or id(n_.args[0]) in ext_nodes):
                q = model.resolve_name(SCHEMA, n_.func.id)
                if q in model.functions:
                    target = model.functions[q]
        if target is None or target.qualname in seen:
            continue
        seen.add(target.qualname)
        # the result: the dict that is returned (or the pairs that are yielded)
        rets = [r.value.id for r in walk_no_nested(target.node) if isinstance(r, ast.Return) and isinstance(r.value, ast.Name)]
        loops = [w for w in walk_no_nested(target.node) if isinstance(w, ast.While)]
        for w in loops[:1]:
            def hit(x) -> bool:
                if isinstance(x, ast.Assign) and any(isinstance(t_, ast.Subscript) and isinstance(t_.value, ast.Name) and t_.value.id in rets for t_ in x.targets):
                    return True
                if isinstance(x, ast.Call) and isinstance(x.func, ast.Attribute) and isinstance(x.func.value, ast.Name) and x.func.value.id in rets and \
                        x.func.attr in ("setdefault", "update", "__setitem__"):
                    return True
                return isinstance(x, (ast.Yield, ast.YieldFrom))
            n += 1
            ok = must_pass(w.body, hit)
            run.ob(rule, ok, {"function": target.name})
            if not ok:
                run.fail(Finding(rule, target.qualname, "iteration-without-store", f"{target.name}: an iteration of the loop over the extension text can finish without storing the "
                                 "extension it has just read", model.loc(target.module, w)))
    if n == 0:
        run.note("G13: the extension parser has no loop of its own here: not decided")


def extension_names_kept_as_written(model: Model, run: Run, rule: str = "G14-extension-names-kept-as-written") -> None:
    """G14: the name an extension is stored under is the name the text has (after the `X-` marker): between the place the
    parser cuts it out of the text and the place it is stored, it is not case-folded, looked up in a table or replaced.
    RFC 4512 xstrings are case-sensitive keys of the result; `X-Origin` and `X-ORIGIN` are two extensions, and the serialiser
    writes the key as held - a parser that renames one no longer returns what the text denotes (nor what str() was given)."""
    from ..rx.sites import group_accesses
    REWRITES = {"lower", "upper", "casefold", "title", "capitalize", "swapcase", "replace", "translate", "get", "setdefault", "pop", "format", "join"}
    n = 0
    seen = set()
    for cname in CLASSES:
        fi = model.func(f"{SCHEMA}.{cname}.from_string")
        ext_nodes = {id(c) for c, _, g in group_accesses(fi.node) if g == "extensions"}
        ext_vars = {t.id for n_ in ast.walk(fi.node) if isinstance(n_, ast.Assign) and id(n_.value) in ext_nodes for t in n_.targets if isinstance(t, ast.Name)}
        target = None
        for n_ in ast.walk(fi.node):
            if isinstance(n_, ast.Call) and isinstance(n_.func, ast.Name) and n_.args and ((isinstance(n_.args[0], ast.Name) and n_.args[0].id in ext_vars) or id(n_.args[0]) in ext_nodes):
                q = model.resolve_name(SCHEMA, n_.func.id)
                if q in model.functions:
                    target = model.functions[q]
        if target is None or target.qualname in seen:
            continue
        seen.add(target.qualname)
        rets = [r.value.id for r in walk_no_nested(target.node) if isinstance(r, ast.Return) and isinstance(r.value, ast.Name)]
        keys = set()
        for x in walk_no_nested(target.node):
            if isinstance(x, ast.Assign):
                for t_ in x.targets:
                    if isinstance(t_, ast.Subscript) and isinstance(t_.value, ast.Name) and t_.value.id in rets and isinstance(t_.slice, ast.Name):
                        keys.add(t_.slice.id)
            if isinstance(x, ast.Call) and isinstance(x.func, ast.Attribute) and isinstance(x.func.value, ast.Name) and x.func.value.id in rets and x.func.attr == "setdefault" and x.args and \
                    isinstance(x.args[0], ast.Name):
                keys.add(x.args[0].id)
            if isinstance(x, ast.Yield) and isinstance(x.value, ast.Tuple) and x.value.elts and isinstance(x.value.elts[0], ast.Name):
                keys.add(x.value.elts[0].id)
        for k in sorted(keys):
            for x in walk_no_nested(target.node):
                if not (isinstance(x, (ast.Assign, ast.AugAssign, ast.AnnAssign)) and getattr(x, "value", None) is not None):
                    continue
                tg = x.targets if isinstance(x, ast.Assign) else [x.target]
                if not any(isinstance(t_, ast.Name) and t_.id == k for t_ in tg):
                    continue
                n += 1
                bad = None
                for y in ast.walk(x.value):
                    if isinstance(y, ast.Call) and isinstance(y.func, ast.Attribute) and y.func.attr in REWRITES:
                        bad = f"`{norm(y)[:50]}`"
                    elif isinstance(y, ast.Subscript) and isinstance(y.value, ast.Name) and y.value.id in model.modules[SCHEMA].globals_:
                        bad = f"a lookup in `{y.value.id}`"
                    elif isinstance(y, ast.Call) and isinstance(y.func, ast.Name) and model.resolve_name(SCHEMA, y.func.id) in model.functions:
                        bad = f"`{norm(y)[:50]}`"
                    if bad:
                        break
                run.ob(rule, bad is None, {"function": target.name, "assignment": norm(x)[:70]})
                if bad:
                    run.fail(Finding(rule, target.qualname, norm(x)[:80], f"{target.name} stores an extension under a name that went through {bad}: the name in the result is not the name "
                                     "in the text (two spellings merge into one key, and str() of the result writes a spelling the text never had)", model.loc(target.module, x)))
    if n == 0:
        run.note(f"{rule}: no assignment to the stored extension name found: not decided")


def keyword_combinations(model: Model, run: Run) -> None:
    """G7: the optional keywords of a description (OBSOLETE, SINGLE-VALUE, COLLECTIVE, NO-USER-MODIFICATION, the kind, USAGE ...)
    are independent in the grammar: every combination is a sentence.  A constructor hook that raises on a condition made
    only of such flag / enumeration / presence tests therefore rejects definitions the grammar derives."""
    from ..srcmodel import dominating_literals
    n = 0
    for cname in CLASSES:
        q = f"{SCHEMA}.{cname}"
        fields = {f.name: f for f in model.dataclass_fields(q)}
        for hook in ("__post_init__", "__init__"):
            mt = model.find_method(q, hook)
            if mt is None or (hook == "__init__" and model.classes[q].is_dataclass and mt.qualname.split(".")[-2] != cname):
                continue
            for r in [x for x in walk_no_nested(mt.node) if isinstance(x, ast.Raise)]:
                lits = dominating_literals(mt.node, r)
                atoms = []
                for l in lits:
                    atoms += [x for x in ast.walk(ast.parse(l, mode="eval")) if isinstance(x, ast.Attribute) and isinstance(x.value, ast.Name) and x.value.id == "self"]
                names = {a.attr for a in atoms}
                other = [x.id for l in lits for x in ast.walk(ast.parse(l, mode="eval")) if isinstance(x, ast.Name) and x.id != "self" and
                         model.resolve_name(mt.module, x.id) not in model.classes]
                flaglike = bool(names) and not other and all(
                    a in fields and fields[a].annotation is not None and _flag_type(model, mt.module, fields[a].annotation) for a in names) and \
                    not any(isinstance(x, ast.Call) for l in lits for x in ast.walk(ast.parse(l, mode="eval")))
                n += 1
                run.ob("G7-keyword-combinations-accepted", not flaglike, {"class": cname, "hook": hook, "condition": " and ".join(lits)[:120]})
                if flaglike:
                    run.fail(Finding("G7-keyword-combinations-accepted", mt.qualname, " and ".join(lits)[:100],
                                     f"{cname}.{hook} raises when `{' and '.join(lits)[:100]}`: these are independent optional keywords of the RFC 4512 grammar, "
                                     "so from_string now rejects definitions the grammar derives", model.loc(mt.module, r)))
    run.coverage["constructor_hook_raises"] = n


def _flag_type(model: Model, module: str, ann: ast.expr) -> bool:
    txt = norm(ann)
    if txt == "bool":
        return True
    q = model.resolve_name(module, txt)
    return q in model.classes and model.classes[q].is_enum


def pattern_of_match_var(model: Model, fi, var: str):
    for n in walk_no_nested(fi.node):
        if isinstance(n, ast.Assign) and any(isinstance(t, ast.Name) and t.id == var for t in n.targets) and isinstance(n.value, ast.Call):
            c = n.value
            if isinstance(c.func, ast.Attribute) and c.func.attr in ("match", "fullmatch", "search"):
                if norm(c.func.value) == "re" and c.args:
                    return norm(c.args[0])
                return norm(c.func.value)
    return None


def space_tolerant_extraction(model: Model, run: Run) -> None:
    """G4: the string cutting that follows the regex match tolerates every spacing the regex accepted (SP = 1*SPACE,
    WSP = 0*SPACE): typestate analysis `cannot start with a space` over from_string and the helpers it reaches."""
    from ..anchors import reachable
    from ..strnorm import analyse
    fns = {}
    for cname in CLASSES:
        fi = model.func(f"{SCHEMA}.{cname}.from_string")
        fns[fi.qualname] = fi
        for f in reachable(model, fi, SCHEMA):
            fns[f.qualname] = f
    n_ob = 0
    mfuncs = {f.name: f.node for f in fns.values() if f.cls is None and isinstance(f.node, ast.FunctionDef)}
    # what every caller hands to the module-level helpers: greatest fixpoint, starting from "every helper parameter is normalised"
    # (a helper called only by other helpers inherits what those were handed)
    pstat = {h: {x.arg: True for x in node.args.args} for h, node in mfuncs.items()}
    for _iter in range(6):
        seen_args = {}
        for q, fi in sorted(fns.items()):
            if isinstance(fi.node, ast.Lambda):
                continue
            a0 = analyse(fi.node, q, mfuncs, pstat.get(fi.name) if fi.cls is None else None)
            for h, lst in a0.call_args.items():
                seen_args.setdefault(h, []).extend(lst)
        new = {}
        for h, lst in seen_args.items():
            if h in mfuncs:
                names = [x.arg for x in mfuncs[h].args.args]
                new[h] = {nm: all(args[i] for args in lst if i < len(args)) for i, nm in enumerate(names)}
        # a helper nobody calls (any more) with known statuses gets no assumption
        for h in mfuncs:
            new.setdefault(h, {x.arg: False for x in mfuncs[h].args.args})
        if new == pstat:
            break
        pstat = new
    for q, fi in sorted(fns.items()):
        if isinstance(fi.node, ast.Lambda):
            continue
        ps = pstat.get(fi.name) if fi.cls is None else None
        a = analyse(fi.node, q, mfuncs, ps)
        n_ob += a.obligations
        for _ in range(a.obligations - len(a.violations)):
            run.ob("G4-space-tolerant-extraction", True)
        for site, why in a.violations:
            run.ob("G4-space-tolerant-extraction", False, {"function": q.split(".")[-1], "why": why})
            run.fail(Finding("G4-space-tolerant-extraction", q, norm(site)[:80], f"{q.split('.')[-1]}: {why}: a definition with more than one space at this point is accepted by the regular "
                             "expression (SP = 1*SPACE) but cut apart wrongly or rejected", model.loc(SCHEMA, site)))
    run.floor("positional inspections of cut strings in the schema extraction", n_ob, 6)


def extension_cut_positions(model: Model, run: Run, rule: str = "G5-no-delimiter-search-across-quoted-values") -> None:
    """G5: grammar-position typestate over the extension parser (the function from_string applies to the `extensions`
    group, with its helpers): no delimiter other than the quote is searched for while quoted text may lie ahead."""
    from ..anchors import reachable
    from ..rx.sites import group_accesses
    from ..strnorm import K as KPOS, PosAnalysis, PosState
    n_search = 0
    seen = set()
    for cname in CLASSES:
        fi = model.func(f"{SCHEMA}.{cname}.from_string")
        ext_nodes = {id(c) for c, _, g in group_accesses(fi.node) if g == "extensions"}
        ext_vars = {t.id for n in ast.walk(fi.node) if isinstance(n, ast.Assign) and id(n.value) in ext_nodes for t in n.targets if isinstance(t, ast.Name)}
        target = None
        for n in ast.walk(fi.node):
            if isinstance(n, ast.Call) and isinstance(n.func, ast.Name) and n.args and ((isinstance(n.args[0], ast.Name) and n.args[0].id in ext_vars) or id(n.args[0]) in ext_nodes):
                q = model.resolve_name(SCHEMA, n.func.id)
                if q in model.functions:
                    target = model.functions[q]
        if target is None:
            raise AnalysisError(f"{cname}.from_string: the function applied to the `extensions` group was not found")
        if target.qualname in seen:
            continue
        seen.add(target.qualname)
        mfuncs = {f.name: f.node for f in reachable(model, target, SCHEMA) if f.cls is None and isinstance(f.node, ast.FunctionDef)}
        p0 = target.params()[0]
        a = PosAnalysis(target.node, target.qualname, {p0: PosState(KPOS)}, mfuncs)
        a.run()
        n_search += a.searches
        for _ in range(a.searches):
            run.ob(rule, True)
        for site, why in a.violations:
            run.ob(rule, False, {"function": target.name, "why": why[:120]})
            run.fail(Finding(rule, target.qualname, norm(site)[:80], f"{target.name}: {why}", model.loc(SCHEMA, site)))
    run.floor("delimiter searches at a known grammar position in the extension parser", n_search, 2)
