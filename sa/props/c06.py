"""C06 - no complete protocol data unit is ever silently discarded."""
from __future__ import annotations

import ast

from ..raises import Esc, MayRaise
from ..readerrules import NOT_ENOUGH, lemma_identity_before_completeness, lemma_no_consume_on_failure, stream_reader_uses
from ..report import Finding, Run
from ..session import SESSION_MOD
from ..srcmodel import AnalysisError, Model, norm, walk_no_nested
from .c05 import may_raise

BASE = f"{SESSION_MOD}.LDAPSession"


def wait_handlers(model: Model, fi):
    """try statements in receive with a handler for NotEnougData that does not turn it into an error."""
    out = []
    for t in walk_no_nested(fi.node):
        if isinstance(t, ast.Try):
            for h in t.handlers:
                if h.type is None:
                    continue
                names = h.type.elts if isinstance(h.type, ast.Tuple) else [h.type]
                qs = [model.resolve_name(fi.module, norm(n)) or norm(n) for n in names]
                if NOT_ENOUGH in qs or any(q in ("Exception", "BaseException") for q in qs):
                    reraises = any(isinstance(x, ast.Raise) for s in h.body for x in ast.walk(s))
                    if not reraises:
                        out.append((t, h))
    return out


def check(model: Model, run: Run) -> None:
    mr = may_raise(model)
    run.explanation = ("exception-provenance analysis: every NotEnougData that can reach a 'wait for more bytes' handler in receive must have been "
                       "raised by a read on the stream-level reader itself (which, by lemma L1/L2 checked here too, has not advanced); a "
                       "NotEnougData from any reader derived from an already consumed envelope must be intercepted before it gets there. "
                       "Together with exact consumption this gives: a complete outer TLV yields a message or an error")
    fi = model.find_method(BASE, "receive")
    if fi is None:
        raise AnalysisError("LDAPSession.receive not found")
    mr.escapes(fi.qualname, None)
    from ..regions import decode_region
    region = decode_region(model)
    run.coverage["decode_region"] = [r.fi.qualname for r in region]
    hs = [(rf, t, h) for rf in region for t, h in wait_handlers(model, rf.fi)]
    run.floor("wait handlers in receive", len(hs), 1)
    run.coverage["stream_readers"] = sorted({f"{rf.fi.name}:{x}" for rf in region for x in rf.readers})
    total = 0
    for rf, t, h in hs:
        f2 = rf.fi
        mr.escapes(f2.qualname, None)
        ctx = {"fi": f2, "self_cls": None, "key": (f2.qualname, None), "caught": frozenset(), "handler_var": None}
        ps = f2.params()
        off = 1 if f2.cls and not f2.is_staticmethod else 0
        good_provs = {f"local:{x}" for x in rf.readers} | {f"param:{ps.index(x) - off}" for x in rf.readers if x in ps}
        escs = mr.block(t.body, ctx)
        mr.fixpoint()
        escs = mr.block(t.body, ctx)
        ne = [e for e in escs if e.exc == NOT_ENOUGH]
        total += len(ne)
        bad = [e for e in ne if e.prov not in good_provs]
        for e in ne:
            ok = e not in bad
            run.ob("Q1-wait-handler-provenance", ok, {"origin": e.short(), "provenance": e.prov})
        if bad:
            groups = {}
            for e in bad:
                groups.setdefault(e.prov, []).append(e)
            for prov, es in groups.items():
                e0 = sorted(es, key=lambda e: (e.func, e.line))[0]
                run.fail(Finding("Q1-wait-handler-provenance", f2.qualname, f"handler@{norm(h.type)}|prov={prov}|n={len(es)}",
                                 f"{len(es)} NotEnougData origin(s) raised on a reader that is not the stream-level reader ({prov}) reach the 'wait for more bytes' "
                                 f"handler `except {norm(h.type)}` in {f2.name}: the envelope has already been consumed, so the PDU would be dropped silently. "
                                 f"e.g. {e0.short()}", model.loc(f2.module, h), [x.short() for x in sorted(es, key=lambda e: (e.func, e.line))[:12]]))
    run.floor("NotEnougData origins reaching wait handlers", total, 3)
    # what the stream-level reader may be asked to do
    methods, escapes = stream_reader_uses(model)
    allowed = {"read_sequence", "read_sequence_of", "read_set", "read_set_of", "read_integer", "read_enumerated", "read_boolean", "read_octet_string", "peek_header"}
    ok = methods <= allowed and not escapes
    run.ob("Q2-stream-reader-only-validated-reads", ok, {"methods": sorted(methods), "escapes": escapes})
    if not ok:
        run.fail(Finding("Q2-stream-reader-only-validated-reads", "sansldap._messages.unpack_ldap_message", f"methods={sorted(methods - allowed)}|escapes={escapes[:2]}",
                         "the stream-level reader is used for something other than validated reads (skip_value/get_remaining_data advance without checking that the bytes are there)", ""))
    lemma_no_consume_on_failure(model, run, "C06")
    lemma_identity_before_completeness(model, run)
    # "returned as a message or a protocol error is raised": nothing else may leave receive
    from ..sessrules import extraction
    from .c05 import escape_set_rule
    escape_set_rule(model, run, extraction(model), mr, "Q5-message-or-protocol-error")
    # any other handler on the receive path that swallows NotEnougData must obey the same provenance rule
    for fq, f2 in list(model.functions.items()):
        if f2 is fi or any(r.fi is f2 for r in region) or isinstance(f2.node, ast.Lambda) or (fq, None) not in mr.summ:
            continue
        for t2, h2 in wait_handlers(model, f2):
            locals2 = set()
            for n in walk_no_nested(f2.node):
                if isinstance(n, ast.Assign) and isinstance(n.value, ast.Call) and model.resolve_name(f2.module, norm(n.value.func)) == "sansldap.asn1.ASN1Reader":
                    a0 = n.value.args[0] if n.value.args else None
                    # a fresh reader over the pending bytes (buffer attribute or the data parameter), not over a decoded value
                    if a0 is not None and (norm(a0).startswith("self._incoming") or (isinstance(a0, ast.Name) and a0.id in f2.params())):
                        for tg in n.targets:
                            if isinstance(tg, ast.Name):
                                locals2.add(tg.id)
            ctx2 = {"fi": f2, "self_cls": None, "key": (fq, None), "caught": frozenset(), "handler_var": None}
            escs2 = [e for e in mr.block(t2.body, ctx2) if e.exc == NOT_ENOUGH]
            def fresh_ok(pv: str) -> bool:
                return pv.startswith("fresh:") and (pv[6:].startswith("self._incoming") or pv[6:] in f2.params())
            bad2 = [e for e in escs2 if not ((e.prov.startswith("local:") and e.prov[6:] in locals2) or fresh_ok(e.prov))]
            run.ob("Q3-other-swallowing-handlers", not bad2, {"function": fq, "origins": len(escs2)})
            if bad2:
                run.fail(Finding("Q3-other-swallowing-handlers", fq, f"except {norm(h2.type)}|prov={bad2[0].prov}",
                                 "a handler on the receive path swallows a NotEnougData that was not raised on a fresh reader over the pending bytes", model.loc(f2.module, h2),
                                 [x.short() for x in bad2[:8]]))
    # Q4: receive must reach the decode phase: no early return other than for empty input
    body = fi.node.body
    rets = [n for n in walk_no_nested(fi.node) if isinstance(n, ast.Return)]
    final = body[-1] if body and isinstance(body[-1], ast.Return) else None
    for r in rets:
        if r is final:
            continue
        conds = enclosing_tests(fi.node, r)
        names = set()
        for c in conds:
            names |= {x.id for x in ast.walk(c) if isinstance(x, ast.Name)} | {"self." + x.attr for x in ast.walk(c) if isinstance(x, ast.Attribute) and isinstance(x.value, ast.Name) and x.value.id == "self"}
        data_param = fi.params()[1] if len(fi.params()) > 1 else "data"
        ok = bool(conds) and names <= {data_param, "len"}
        run.ob("Q4-no-early-return-with-pending-bytes", ok, {"return": norm(r), "conditions": [norm(c) for c in conds]})
        if not ok:
            run.fail(Finding("Q4-no-early-return-with-pending-bytes", fi.qualname, f"{norm(r)} under {[norm(c)[:60] for c in conds]}",
                             "receive can return before the decode loop has looked at the pending bytes, under a condition that is not just 'no new data': "
                             "a complete PDU can then sit in the buffer while [] is returned", model.loc(fi.module, r)))
    run.ob("Q4-no-early-return-with-pending-bytes", True)


def enclosing_tests(func: ast.AST, target: ast.AST):
    """Tests of the if/while statements that enclose `target`."""
    out = []

    def visit(node, stack):
        if node is target:
            out.extend(stack)
            return True
        for ch in ast.iter_child_nodes(node):
            st = stack
            if isinstance(node, (ast.If, ast.While)) and ch is not node.test:
                st = stack + [node.test]
            if visit(ch, st):
                return True
        return False
    visit(func, [])
    return out
