"""C06 - no complete protocol data unit is ever silently discarded."""
from __future__ import annotations

import ast

from ..raises import Esc, MayRaise
from ..anchors import is_incomplete
from ..readerrules import NOT_ENOUGH, lemma_identity_before_completeness, lemma_no_consume_on_failure, stream_reader_uses
from ..report import Finding, Run
from ..session import SESSION_MOD
from ..srcmodel import AnalysisError, Model, norm, walk_no_nested
from .c05 import may_raise

BASE = f"{SESSION_MOD}.LDAPSession"


def wait_handlers(model: Model, fi):
    """try statements in receive with a handler for NotEnougData that does not turn it into an error."""
    out = []
    for t in walk_no_nested(fi.node):
        if isinstance(t, ast.Try):
            for h in t.handlers:
                if h.type is None:
                    continue
                names = h.type.elts if isinstance(h.type, ast.Tuple) else [h.type]
                qs = [model.resolve_name(fi.module, norm(n)) or norm(n) for n in names]
                if any(is_incomplete(model, q_) for q_ in qs) or any(q in ("Exception", "BaseException") for q in qs):
                    reraises = any(isinstance(x, ast.Raise) for s in h.body for x in ast.walk(s))
                    if not reraises:
                        out.append((t, h))
    return out


def check(model: Model, run: Run) -> None:
    mr = may_raise(model)
    run.explanation = ("exception-provenance analysis: every NotEnougData that can reach a 'wait for more bytes' handler in receive must have been "
                       "raised by a read on the stream-level reader itself (which, by lemma L1/L2 checked here too, has not advanced); a "
                       "NotEnougData from any reader derived from an already consumed envelope must be intercepted before it gets there. "
                       "Together with exact consumption this gives: a complete outer TLV yields a message or an error")
    from ..readerrules import receive_anchor
    fi = receive_anchor(model)
    mr.escapes(fi.qualname, None)
    from ..regions import decode_region
    region = decode_region(model)
    run.coverage["decode_region"] = [r.fi.qualname for r in region]
    hs = [(rf, t, h) for rf in region for t, h in wait_handlers(model, rf.fi)]
    run.floor("wait handlers in receive", len(hs), 1)
    run.coverage["stream_readers"] = sorted({f"{rf.fi.name}:{x}" for rf in region for x in rf.readers})
    total = 0
    for rf, t, h in hs:
        f2 = rf.fi
        mr.escapes(f2.qualname, None)
        ctx = {"fi": f2, "self_cls": None, "key": (f2.qualname, None), "caught": frozenset(), "handler_var": None}
        ps = f2.params()
        off = 1 if f2.cls and not f2.is_staticmethod else 0
        good_provs = {f"local:{x}" for x in rf.readers} | {f"param:{ps.index(x) - off}" for x in rf.readers if x in ps}
        escs = mr.block(t.body, ctx)
        mr.fixpoint()
        escs = mr.block(t.body, ctx)
        ne = [e for e in escs if is_incomplete(model, e.exc)]
        total += len(ne)
        bad = [e for e in ne if e.prov not in good_provs]
        for e in ne:
            ok = e not in bad
            run.ob("Q1-wait-handler-provenance", ok, {"origin": e.short(), "provenance": e.prov})
        if bad:
            groups = {}
            for e in bad:
                groups.setdefault(e.prov, []).append(e)
            for prov, es in groups.items():
                e0 = sorted(es, key=lambda e: (e.func, e.line))[0]
                run.fail(Finding("Q1-wait-handler-provenance", f2.qualname, f"handler@{norm(h.type)}|prov={prov}|n={len(es)}",
                                 f"{len(es)} NotEnougData origin(s) raised on a reader that is not the stream-level reader ({prov}) reach the 'wait for more bytes' "
                                 f"handler `except {norm(h.type)}` in {f2.name}: the envelope has already been consumed, so the PDU would be dropped silently. "
                                 f"e.g. {e0.short()}", model.loc(f2.module, h), [x.short() for x in sorted(es, key=lambda e: (e.func, e.line))[:12]]))
    run.floor("NotEnougData origins reaching wait handlers", total, 3)
    # what the stream-level reader may be asked to do
    methods, escapes = stream_reader_uses(model)
    allowed = {"read_sequence", "read_sequence_of", "read_set", "read_set_of", "read_integer", "read_enumerated", "read_boolean", "read_octet_string", "peek_header"}
    ok = methods <= allowed and not escapes
    run.ob("Q2-stream-reader-only-validated-reads", ok, {"methods": sorted(methods), "escapes": escapes})
    if not ok:
        run.fail(Finding("Q2-stream-reader-only-validated-reads", "sansldap._messages.unpack_ldap_message", f"methods={sorted(methods - allowed)}|escapes={escapes[:2]}",
                         "the stream-level reader is used for something other than validated reads (skip_value/get_remaining_data advance without checking that the bytes are there)", ""))
    lemma_no_consume_on_failure(model, run, "C06")
    lemma_identity_before_completeness(model, run)
    decoded_values_not_tested_for_truth(model, run, mr)
    # "returned as a message or a protocol error is raised": nothing else may leave receive
    from ..sessrules import extraction
    from .c05 import escape_set_rule
    escape_set_rule(model, run, extraction(model), mr, "Q5-message-or-protocol-error")
    # any other handler on the receive path that swallows NotEnougData must obey the same provenance rule
    for fq, f2 in list(model.functions.items()):
        if f2 is fi or any(r.fi is f2 for r in region) or isinstance(f2.node, ast.Lambda) or (fq, None) not in mr.summ:
            continue
        for t2, h2 in wait_handlers(model, f2):
            locals2 = set()
            for n in walk_no_nested(f2.node):
                if isinstance(n, ast.Assign) and isinstance(n.value, ast.Call) and model.resolve_name(f2.module, norm(n.value.func)) == "sansldap.asn1.ASN1Reader":
                    a0 = n.value.args[0] if n.value.args else None
                    # a fresh reader over the pending bytes (buffer attribute or the data parameter), not over a decoded value
                    if a0 is not None and (norm(a0).startswith("self._incoming") or (isinstance(a0, ast.Name) and a0.id in f2.params())):
                        for tg in n.targets:
                            if isinstance(tg, ast.Name):
                                locals2.add(tg.id)
            ctx2 = {"fi": f2, "self_cls": None, "key": (fq, None), "caught": frozenset(), "handler_var": None}
            escs2 = [e for e in mr.block(t2.body, ctx2) if is_incomplete(model, e.exc)]
            def fresh_ok(pv: str) -> bool:
                return pv.startswith("fresh:") and (pv[6:].startswith("self._incoming") or pv[6:] in f2.params())
            bad2 = [e for e in escs2 if not ((e.prov.startswith("local:") and e.prov[6:] in locals2) or fresh_ok(e.prov))]
            run.ob("Q3-other-swallowing-handlers", not bad2, {"function": fq, "origins": len(escs2)})
            if bad2:
                run.fail(Finding("Q3-other-swallowing-handlers", fq, f"except {norm(h2.type)}|prov={bad2[0].prov}",
                                 "a handler on the receive path swallows a NotEnougData that was not raised on a fresh reader over the pending bytes", model.loc(f2.module, h2),
                                 [x.short() for x in bad2[:8]]))
    # Q4: receive must reach the decode phase: no early return other than for empty input
    body = fi.node.body
    rets = [n for n in walk_no_nested(fi.node) if isinstance(n, ast.Return)]
    final = body[-1] if body and isinstance(body[-1], ast.Return) else None
    for r in rets:
        if r is final:
            continue
        conds = enclosing_tests(fi.node, r)
        names = set()
        for c in conds:
            names |= {x.id for x in ast.walk(c) if isinstance(x, ast.Name)} | {"self." + x.attr for x in ast.walk(c) if isinstance(x, ast.Attribute) and isinstance(x.value, ast.Name) and x.value.id == "self"}
        data_param = fi.params()[1] if len(fi.params()) > 1 else "data"
        ok = bool(conds) and names <= {data_param, "len"}
        run.ob("Q4-no-early-return-with-pending-bytes", ok, {"return": norm(r), "conditions": [norm(c) for c in conds]})
        if not ok:
            run.fail(Finding("Q4-no-early-return-with-pending-bytes", fi.qualname, f"{norm(r)} under {[norm(c)[:60] for c in conds]}",
                             "receive can return before the decode loop has looked at the pending bytes, under a condition that is not just 'no new data': "
                             "a complete PDU can then sit in the buffer while [] is returned", model.loc(fi.module, r)))
    run.ob("Q4-no-early-return-with-pending-bytes", True)


def enclosing_tests(func: ast.AST, target: ast.AST):
    """Tests of the if/while statements that enclose `target`."""
    out = []

    def visit(node, stack):
        if node is target:
            out.extend(stack)
            return True
        for ch in ast.iter_child_nodes(node):
            st = stack
            if isinstance(node, (ast.If, ast.While)) and ch is not node.test:
                st = stack + [node.test]
            if visit(ch, st):
                return True
        return False
    visit(func, [])
    return out


def truth_of_package_values(model: Model, run: Run, mr, rule: str, what: str) -> None:
    """`x or default`, `if x:`, `not x` in the session module on a value of a package class: harmless while no class in that
    hierarchy defines __bool__ / __len__ (truth == "is not None"); once one does, a legitimate falsy value (an empty AND
    filter, an empty reference list) is silently replaced or dropped."""
    n = 0
    for fq, fi in list(model.functions.items()):
        if isinstance(fi.node, ast.Lambda) or fi.module != SESSION_MOD:
            continue
        env = mr.r.env(fi)
        risky = {}
        for k, t in env.items():
            t0 = mr.r.strip_opt(t)
            if t0[0] == "inst" and t0[1] in model.classes and t0[1].startswith("sansldap.") and not model.classes[t0[1]].is_enum and \
                    any(model.classes[k_].is_dataclass for k_ in model.classes[t0[1]].mro if k_ in model.classes):
                # value types only (dataclasses): a reader or a writer is *meant* to be tested for "anything left"
                # (a hook inherited from a mixin anywhere in the class's MRO counts: `class FilterAnd(LDAPFilter, _Collection)`)
                caps = [q for q in model.subclasses(t0[1]) if any(mn in model.classes[k__].methods for k__ in model.classes[q].mro if k__ in model.classes for mn in ("__bool__", "__len__"))]
                if caps:
                    risky[k] = caps
        if not risky:
            continue
        for x in walk_no_nested(fi.node):
            hit = None
            if isinstance(x, ast.BoolOp):
                hit = next((v for v in x.values[:-1] if isinstance(v, ast.Name) and v.id in risky), None)
            elif isinstance(x, ast.UnaryOp) and isinstance(x.op, ast.Not) and isinstance(x.operand, ast.Name) and x.operand.id in risky:
                hit = x.operand
            elif isinstance(x, (ast.If, ast.While, ast.IfExp)) and isinstance(x.test, ast.Name) and x.test.id in risky:
                hit = x.test
            if hit is None:
                continue
            n += 1
            run.ob(rule, False, {"function": fq.split("sansldap.")[-1], "value": hit.id})
            run.fail(Finding(rule, fq, norm(x)[:80] if not isinstance(x, (ast.If, ast.While)) else norm(x.test)[:80],
                             f"{fq.split('sansldap.')[-1]} decides by the truth of `{hit.id}`; {', '.join(c.split('.')[-1] for c in risky[hit.id])} define(s) __bool__/__len__, "
                             f"so a falsy but legitimate value is {what}", model.loc(fi.module, x)))
    run.coverage["truth_tests_on_falsy_capable_values"] = n
    run.ob(rule, True, {"falsy_capable_values_tested": n}) if n == 0 else None


def decoded_values_not_tested_for_truth(model: Model, run: Run, mr) -> None:
    """Q6: between decoding a message and returning it, the session never decides anything by the *truth value* of a message whose
    class (or a subclass) defines __bool__ / __len__: a message that happens to be falsy (an empty reference list, an empty
    filter set) would be taken for "nothing decoded" and dropped after its bytes were consumed.  With no such dunder in the
    message hierarchy a truth test is an `is not None` test and nothing is flagged."""
    base = "sansldap._messages.LDAPMessage"
    if base not in model.classes:
        raise AnalysisError("LDAPMessage not found")
    falsy_capable = sorted(q for q in model.subclasses(base) if any(mn in model.classes[k__].methods for k__ in model.classes[q].mro if k__ in model.classes for mn in ("__bool__", "__len__")))
    run.coverage["message_classes_with_truth_dunder"] = [q.split(".")[-1] for q in falsy_capable]
    n = 0
    for fq, fi in list(model.functions.items()):
        if isinstance(fi.node, ast.Lambda) or fi.module != SESSION_MOD:
            continue
        env = mr.r.env(fi)
        msg_names = set()
        for k, t in env.items():
            t0 = mr.r.strip_opt(t)
            if t0[0] == "inst" and t0[1] in model.classes and (model.is_subclass(t0[1], base) or t0[1] == base):
                msg_names.add(k)
        if not msg_names:
            continue
        tests = []
        for x in walk_no_nested(fi.node):
            if isinstance(x, (ast.If, ast.While, ast.IfExp)):
                tests.append(x.test)
            elif isinstance(x, ast.Assert):
                tests.append(x.test)
        for t in tests:
            for y in ast.walk(t):
                hit = None
                if isinstance(y, ast.UnaryOp) and isinstance(y.op, ast.Not) and isinstance(y.operand, ast.Name) and y.operand.id in msg_names:
                    hit = y.operand
                elif isinstance(y, ast.BoolOp):
                    hit = next((v for v in y.values if isinstance(v, ast.Name) and v.id in msg_names), None)
                elif y is t and isinstance(y, ast.Name) and y.id in msg_names:
                    hit = y
                if hit is None:
                    continue
                n += 1
                ok = not falsy_capable
                run.ob("Q6-decoded-message-not-tested-for-truth", ok, {"function": fq.split("sansldap.")[-1], "test": norm(t)[:60]})
                if not ok:
                    run.fail(Finding("Q6-decoded-message-not-tested-for-truth", fq, norm(t)[:80],
                                     f"{fq.split('sansldap.')[-1]} branches on the truth of `{hit.id}`, a decoded message; {', '.join(c.split('.')[-1] for c in falsy_capable)} "
                                     "define(s) __bool__/__len__, so a complete message that is falsy is treated as absent after its bytes were consumed", model.loc(fi.module, t)))
    run.coverage["truth_tests_on_messages"] = n
