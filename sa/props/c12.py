"""C12 - outgoing bytes delivered exactly once, in order, however drained.

Structural decision: (a) who may write the outgoing buffer, (b) the drain
function returns a prefix of the pending bytes and keeps exactly the
complementary suffix (cut-consistency on every path), (c) draining has no
other effect on the session, (d) bytes are appended iff the send succeeds
(shared with C10 E1).
"""
from __future__ import annotations

import ast
from typing import Dict, List, Optional, Tuple

from ..report import Finding, Run
from ..sessrules import (OBUF, OUT, SEARCH, SESSION_CLASSES, common_coverage, exc_short, ext_msg, extends, extraction, msg_short, where)
from ..session import SESSION_MOD, Obj, Packed, desc
from ..srcmodel import AnalysisError, Model, norm

BASE = f"{SESSION_MOD}.LDAPSession"
COPIES = ("bytes", "bytearray")


def attr_name(n: ast.AST) -> Optional[str]:
    if isinstance(n, ast.Attribute) and isinstance(n.value, ast.Name) and n.value.id == "self":
        return n.attr
    return None


class DrainPath:
    def __init__(self):
        self.env: Dict[str, ast.expr] = {}     # local -> defining expression (resolved)
        self.ver: Dict[str, int] = {}          # local -> version (bumped on every assignment)
        self.conds: List[Tuple[str, bool]] = []
        self.ops: List[Tuple[str, object, ast.stmt]] = []   # ("buf_assign", expr) ("attr_assign", (attr, expr)) ("del", (base, lo, hi)) ("call", text)
        self.ret: Optional[ast.expr] = None
        self.ret_stmt = None
        self.ret_text = ""
        self.defs: Dict[str, str] = {}
        self.def_lines: Dict[str, int] = {}
        self.attr_env: Dict[str, str] = {}     # self.<attr> (not the buffer) -> the value this path last stored there

    def clone(self):
        p = DrainPath()
        p.attr_env = dict(self.attr_env)
        p.env = dict(self.env)
        p.ver = dict(self.ver)
        p.conds = list(self.conds)
        p.ops = list(self.ops)
        p.defs = dict(self.defs)
        p.def_lines = dict(self.def_lines)
        return p


class DrainAnalysis:
    """Enumerates the paths of the drain function and records, per path, the
    returned expression and the buffer-retention operations with local names
    substituted by a versioned form (`amount@1`), so that 'the same index value'
    is decidable syntactically."""

    def __init__(self, model: Model, fi):
        self.m = model
        self.fi = fi
        self.paths: List[DrainPath] = []

    def run(self):
        p = DrainPath()
        for a in self.fi.params()[1:]:
            p.ver[a] = 0
        self._block(self.fi.node.body, [p])
        return self.paths

    def subst(self, e: ast.expr, p: DrainPath) -> str:
        """Text of e with every local replaced by name@version and aliases of self attrs expanded."""
        class T(ast.NodeTransformer):
            def visit_Name(s, n):
                if n.id in p.env and isinstance(p.env[n.id], str):
                    return ast.Name(id=p.env[n.id], ctx=ast.Load())
                if n.id in p.ver:
                    return ast.Name(id=f"{n.id}@{p.ver[n.id]}", ctx=ast.Load())
                return n

            def visit_Attribute(s, n):
                if isinstance(n.value, ast.Name) and n.value.id == "self" and isinstance(n.ctx, ast.Load) and n.attr in p.attr_env:
                    try:
                        return ast.parse(p.attr_env[n.attr].replace("@", "__AT__"), mode="eval").body
                    except SyntaxError:
                        return n
                return s.generic_visit(n)
        import copy
        return norm(T().visit(copy.deepcopy(e))).replace("__AT__", "@")

    def _block(self, stmts, live: List[DrainPath]):
        for s in stmts:
            nxt = []
            for p in live:
                nxt.extend(self._stmt(s, p))
            live = nxt
        return live

    def _stmt(self, s, p: DrainPath) -> List[DrainPath]:
        if isinstance(s, ast.Expr) and isinstance(s.value, ast.Constant):
            return [p]
        if isinstance(s, ast.Return):
            p.ret = s.value
            p.ret_text = self.subst(s.value, p) if s.value is not None else "None"
            p.ret_stmt = s
            self.paths.append(p)
            return []
        if isinstance(s, ast.If):
            a, b = p.clone(), p.clone()
            t = self.subst(s.test, p)
            a.conds.append((t, True))
            b.conds.append((t, False))
            return self._block(s.body, [a]) + self._block(s.orelse, [b])
        if isinstance(s, (ast.Assign, ast.AnnAssign)):
            if isinstance(s, ast.AnnAssign) and s.value is None:
                return [p]
            tg = s.targets[0] if isinstance(s, ast.Assign) else s.target
            if isinstance(s, ast.Assign) and len(s.targets) != 1:
                raise AnalysisError(f"drain: chained assignment {norm(s)}")
            vt = self.subst(s.value, p)
            if isinstance(tg, ast.Name):
                p.ver[tg.id] = p.ver.get(tg.id, -1) + 1
                # alias of a self attribute or pure expression: keep resolved text
                p.env[tg.id] = None
                p.defs[f"{tg.id}@{p.ver[tg.id]}"] = vt
                p.def_lines[tg.id] = s.lineno
                return [p]
            an = attr_name(tg)
            if an is not None:
                p.ops.append(("attr_assign", (an, vt), s))
                if an != OBUF:
                    p.attr_env[an] = f"({vt})"
                return [p]
            raise AnalysisError(f"drain: unsupported assignment target {norm(tg)}")
        if isinstance(s, ast.AugAssign):
            an = attr_name(s.target)
            if an is not None:
                p.ops.append(("attr_aug", (an, type(s.op).__name__, self.subst(s.value, p)), s))
                return [p]
            if isinstance(s.target, ast.Name):
                old = f"{s.target.id}@{p.ver.get(s.target.id, 0)}"
                p.ver[s.target.id] = p.ver.get(s.target.id, -1) + 1
                p.defs[f"{s.target.id}@{p.ver[s.target.id]}"] = f"({old}) {type(s.op).__name__} ({self.subst(s.value, p)})"
                return [p]
            raise AnalysisError(f"drain: unsupported augmented assignment {norm(s)}")
        if isinstance(s, ast.Delete):
            for t in s.targets:
                p.ops.append(("del", self.subst(t, p), s))
            return [p]
        if isinstance(s, ast.Expr):
            if not any(isinstance(x, (ast.Call, ast.Await, ast.Yield, ast.YieldFrom, ast.NamedExpr)) for x in ast.walk(s.value)):
                return [p]      # a value looked at and dropped (a docstring, what is left of a logging call) changes nothing
            p.ops.append(("call", self.subst(s.value, p), s))
            return [p]
        if isinstance(s, ast.Pass):
            return [p]
        if isinstance(s, ast.Raise):
            p.ret = None
            p.ret_text = "raise"
            p.ret_stmt = s
            self.paths.append(p)
            return []
        raise AnalysisError(f"drain: unsupported statement {type(s).__name__} in {self.fi.qualname}")


def expand(text: str, defs: Dict[str, str], depth: int = 0) -> str:
    """Expand versioned locals by their definitions (bounded)."""
    import re
    if depth > 8:
        return text
    def rep(m):
        k = m.group(0)
        return "(" + expand(defs[k], defs, depth + 1) + ")" if k in defs else k
    return re.sub(r"[A-Za-z_][A-Za-z0-9_]*@\d+", rep, text)


def canon(t: str) -> str:
    """Parenthesis-insensitive canonical text of an expression."""
    try:
        return ast.unparse(ast.parse(t.strip(), mode="eval").body)
    except SyntaxError:
        return t.strip()


def strip_parens(t: str) -> str:
    t = t.strip()
    while t.startswith("(") and t.endswith(")"):
        # only strip if the parens match each other
        d = 0
        ok = True
        for i, ch in enumerate(t):
            if ch == "(":
                d += 1
            elif ch == ")":
                d -= 1
                if d == 0 and i != len(t) - 1:
                    ok = False
                    break
        if not ok:
            break
        t = t[1:-1].strip()
    return t


def parse_slice(text: str):
    """text of the form  [copy(]  BASE[lo:hi]  [)]  ->  (base, lo, hi, copied) or None"""
    t = strip_parens(text)
    copied = False
    try:
        n = ast.parse(t, mode="eval").body
    except SyntaxError:
        return None
    while isinstance(n, ast.Call) and isinstance(n.func, ast.Name) and n.func.id in COPIES and len(n.args) == 1:
        copied = True
        n = n.args[0]
    if isinstance(n, ast.Subscript) and isinstance(n.slice, ast.Slice) and n.slice.step is None:
        lo = norm(n.slice.lower) if n.slice.lower is not None else None
        hi = norm(n.slice.upper) if n.slice.upper is not None else None
        base = n.value
        if isinstance(base, ast.Call) and isinstance(base.func, ast.Name) and base.func.id == "memoryview" and len(base.args) == 1 and not base.keywords:
            base = base.args[0]          # a view of the buffer is sliced where the buffer would be (no copy until bytes() is applied)
        return norm(base), lo, hi, copied
    return None


def _is_aug_target(fn_node: ast.AST, y: ast.Attribute) -> bool:
    return any(isinstance(a, ast.AugAssign) and a.target is y for a in ast.walk(fn_node))


def drain_defaults_to_everything(model: Model, run: Run, rule: str = "D8-no-amount-means-everything") -> None:
    """D8: `data_to_send()` without an amount hands out everything that is pending: the amount parameter defaults to None (the
    "all" marker the body tests for).  A numeric default turns the call every example and test makes into "at most N": whatever
    is queued beyond N stays in the session unless the caller knows to call again."""
    drain = model.find_method(BASE, "data_to_send")
    if drain is None or isinstance(drain.node, ast.Lambda):
        raise AnalysisError("data_to_send not found")
    a = drain.node.args
    pos = [p_ for p_ in a.posonlyargs + a.args if p_.arg != "self"]
    if not pos:
        run.ob(rule, True, {"parameters": 0})
        return
    dfl = dict(zip([p_.arg for p_ in (a.posonlyargs + a.args)][len(a.posonlyargs + a.args) - len(a.defaults):], a.defaults))
    first = pos[0].arg
    d = dfl.get(first)
    ok = isinstance(d, ast.Constant) and d.value is None
    run.ob(rule, ok, {"parameter": first, "default": norm(d) if d is not None else None})
    if not ok:
        run.fail(Finding(rule, drain.qualname, f"{first}={norm(d) if d is not None else '<required>'}",
                         f"data_to_send takes `{first}` with the default `{norm(d) if d is not None else 'none at all'}`, not None: a plain data_to_send() no longer drains the "
                         "buffer, and a message longer than that stays queued behind its own beginning", model.loc(drain.module, drain.node)))


def check(model: Model, run: Run) -> None:
    ex = extraction(model)
    run.explanation = ("who-may-write census of the outgoing buffer over the whole package plus a path enumeration of "
                       "LDAPSession.data_to_send with versioned locals: on every path the returned value must be a copy of "
                       "buffer[:k] and the retained buffer must be buffer[k:] for the same value k with no write in between "
                       "(b[:k] + b[k:] == b for every int k), and the drain path may touch nothing but the buffer")
    common_coverage(ex, run)
    from .c07 import exit_does_not_swallow
    exit_does_not_swallow(model, run)
    model.cls(BASE)
    drain_defaults_to_everything(model, run)
    # ---- (a) writer census over the package ---------------------------------
    writers = []
    for fq, fi in model.functions.items():
        for n in ast.walk(fi.node):
            if isinstance(n, ast.Attribute) and n.attr == OBUF and isinstance(n.ctx, (ast.Store, ast.Del)):
                writers.append((fq, fi, "assign", n))
            elif isinstance(n, ast.Call) and isinstance(n.func, ast.Attribute) and isinstance(n.func.value, ast.Attribute) and n.func.value.attr == OBUF:
                if n.func.attr not in ("copy", "hex", "find", "count", "index", "startswith", "endswith", "decode", "__len__"):
                    writers.append((fq, fi, "call:" + n.func.attr, n))
            elif isinstance(n, ast.Constant) and n.value == OBUF:
                writers.append((fq, fi, "dynamic", n))
            elif isinstance(n, (ast.Subscript,)) and isinstance(n.ctx, (ast.Store, ast.Del)) and isinstance(n.value, ast.Attribute) and n.value.attr == OBUF:
                writers.append((fq, fi, "subscript-store", n))
    # the buffer handed to something else (a writer constructed over it, a pack_into(buffer) helper) is written by that something
    for fq, fi in list(model.functions.items()):
        if isinstance(fi.node, ast.Lambda):
            continue
        for n in ast.walk(fi.node):
            if isinstance(n, ast.Call):
                for a in list(n.args) + [k.value for k in n.keywords]:
                    if isinstance(a, ast.Attribute) and a.attr == OBUF and not (isinstance(n.func, ast.Name) and n.func.id in ("len", "bytes", "bool", "memoryview", "bytearray")):
                        writers.append((fq, fi, "escapes-to:" + norm(n.func)[:40], n))
    run.floor("outgoing buffer writers", len(writers), 2)
    drain = model.find_method(BASE, "data_to_send")
    if drain is None:
        raise AnalysisError("LDAPSession.data_to_send not found")
    for fq, fi, kind, n in writers:
        cls_ok = fi.cls in SESSION_CLASSES
        if kind == "assign":
            ok = cls_ok and fi.name in ("__init__", drain.name)
            why = "the outgoing buffer may only be (re)assigned by __init__ and the drain function"
        elif kind == "call:extend":
            ok = cls_ok
            why = "appends to the outgoing buffer must be made by the session's send path"
        else:
            ok = fi.qualname == drain.qualname
            why = f"unexpected writer of the outgoing buffer ({kind})"
        run.ob("W1-buffer-writers", ok, {"function": fq, "kind": kind})
        if not ok:
            run.fail(Finding("W1-buffer-writers", fq, f"{kind}:{norm(n)[:80]}", why, model.loc(fi.module, n)))
    # only the application drains: nothing inside the package calls the drain function (an error path that empties the buffer
    # into an exception attribute makes the bytes of earlier, successful sends disappear from the stream)
    for fq, fi in list(model.functions.items()):
        if isinstance(fi.node, ast.Lambda):
            continue
        for n in ast.walk(fi.node):
            if isinstance(n, ast.Call) and isinstance(n.func, ast.Attribute) and n.func.attr == drain.name and fi is not drain and \
                    not (isinstance(n.func.value, ast.Call) and isinstance(n.func.value.func, ast.Name) and n.func.value.func.id == "super" and fi.name == drain.name):
                run.ob("W3-only-the-application-drains", False, {"function": fq})
                run.fail(Finding("W3-only-the-application-drains", fq, norm(n)[:80],
                                 f"{fq.split('sansldap.')[-1]} calls {drain.name}() itself: pending bytes of successful sends leave the outgoing stream through another door",
                                 model.loc(fi.module, n)))
    run.ob("W3-only-the-application-drains", True)
    # aliases: any local bound to the buffer attribute outside the drain function and mutated is out of model
    # ---- (a2) every append is the encoding of the message being sent ------------
    napp = 0
    for q in SESSION_CLASSES:
        for p in ex.paths[q]:
            for e in p.effects:
                if e.kind == "extend" and e.a == OBUF:
                    napp += 1
                    ok = isinstance(e.b, Packed) and isinstance(e.b.of, Obj)
                    run.ob("W2-append-is-message-encoding", ok)
                    if not ok:
                        run.fail(Finding("W2-append-is-message-encoding", e.func, e.text, "bytes appended to the outgoing buffer are not pack() of the message being sent", where(ex, e), p.trace()))
                if e.kind == "attr_call" and e.a == OBUF and p.entry != drain.name:
                    run.ob("W1-buffer-writers", False)
                    run.fail(Finding("W1-buffer-writers", e.func, e.text, f"outgoing buffer mutated with .{e.b}() outside the drain function", where(ex, e), p.trace()))
    run.floor("append effects", napp, 20)
    # ... and pack() is a function of the message alone (no shared writer, no cache): the bytes of one send cannot depend on another
    from .c01 import purity
    purity(model, run, None)
    # ---- (b) cut consistency in the drain function ---------------------------
    da = DrainAnalysis(model, drain)
    paths = da.run()
    run.floor("drain paths", len(paths), 1)
    for p in paths:
        defs = p.defs
        if p.ret is None:
            continue
        rt = expand(p.ret_text, defs)
        sl = parse_slice(rt)
        label = {"conds": [f"{c}={v}" for c, v in p.conds], "returns": rt[:120]}
        buf_ops = [(k, v, s) for k, v, s in p.ops if (k == "attr_assign" and v[0] == OBUF) or k == "del" or (k == "call" and OBUF in expand(str(v), defs))]
        other_ops = [(k, v, s) for k, v, s in p.ops if (k, v, s) not in buf_ops]
        key_base = f"self.{OBUF}"
        if sl is None or sl[0] != key_base:
            raise AnalysisError(f"drain function {drain.qualname}: returned value `{rt[:80]}` is not a slice of the outgoing buffer; "
                                "this design is outside the recognised drain shapes (C12 cannot be decided)")
        base, lo, hi, copied = sl
        run.ob("D1-returns-a-copy", copied, label)
        if not copied:
            run.fail(Finding("D1-returns-a-copy", drain.qualname, f"return {rt[:80]}", "the drained bytes are returned without a copy (they alias the live buffer)", model.loc(drain.module, p.ret_stmt)))
        offset_attrs = sorted({v[0] for k, v, s in other_ops if k in ("attr_assign", "attr_aug")})
        if lo in (None, "0") and offset_attrs:
            # the slice starts at the front of the buffer: the other attributes the drain writes are bookkeeping (running totals).
            # A total the drain never reads back is a statistic and not this property's business; one it does read back (directly
            # or through a property of the class) decides how much is handed out next, so it must count the bytes handed out -
            # `len(<what is returned>)` - and not the amount asked for, which may exceed what is pending.
            cls_q = drain.cls
            def attrs_read(node, depth=0):
                out = set()
                for x in ast.walk(node):
                    if isinstance(x, ast.Attribute) and isinstance(x.value, ast.Name) and x.value.id == "self" and isinstance(x.ctx, ast.Load):
                        out.add(x.attr)
                        pm = model.find_method(cls_q, x.attr) if cls_q else None
                        if pm is not None and "property" in " ".join(pm.decorators) and depth < 3:
                            out |= attrs_read(pm.node, depth + 1)
                return out
            fed_back = attrs_read(drain.node)
            for k, v, s_ in list(other_ops):
                if k not in ("attr_assign", "attr_aug") or v[0] not in offset_attrs:
                    continue
                if v[0] not in fed_back:
                    run.note(f"data_to_send keeps a running total in self.{v[0]} that it never reads back: not judged")
                    other_ops.remove((k, v, s_))
                    continue
                val = expand(str(v[-1]), defs)
                counted = f"len({rt})" in val.replace(" ", "").replace("((", "(").replace("))", ")") or f"len({strip_parens(rt)})" in val or \
                    (isinstance(p.ret, ast.Name) and f"len({p.ret.id}" in norm(s_))
                run.ob("D6-totals-count-what-was-handed-out", counted, dict(label, attribute=v[0], stepped_by=val[:60]))
                if not counted:
                    run.fail(Finding("D6-totals-count-what-was-handed-out", drain.qualname, f"self.{v[0]} stepped by {val[:50]}",
                                     f"data_to_send reads self.{v[0]} back to decide how much to hand out, but steps it by `{norm(s_)[:60]}` - the amount asked for, not the number of bytes "
                                     "returned: after one call that asked for more than was pending the total is wrong for good, and later calls hand out too little or nothing",
                                     model.loc(drain.module, s_)))
                other_ops.remove((k, v, s_))
            offset_attrs = []
        if lo in (None, "0") and not offset_attrs:
            # design A: plain prefix / suffix
            ok = False
            why = "the retained buffer is not the complementary suffix of the returned prefix"
            if hi is None:
                # whole buffer returned: must be emptied
                ok = any(k == "attr_assign" and parse_slice(expand(v[1], defs)) is None and strip_parens(expand(v[1], defs)) in ("bytearray()", "bytearray(b'')") for k, v, s in buf_ops)
                why = "the whole buffer is returned but not emptied"
            else:
                for k, v, s in buf_ops:
                    if k == "attr_assign":
                        sl2 = parse_slice(expand(v[1], defs))
                        if sl2 and sl2[0] == key_base and sl2[1] == hi and sl2[2] is None:
                            ok = True
                    elif k == "del":
                        d = parse_slice(expand(str(v), defs))
                        if d and d[0] == key_base and d[1] in (None, "0") and d[2] == hi:
                            ok = True
                if len(buf_ops) != 1:
                    ok = False
                    why = f"{len(buf_ops)} buffer writes on a drain path (exactly one expected)"
                if not buf_ops:
                    # a path that only looks: taken only when the caller sets a flag away from its default (`peek=True`), it returns a copy and
                    # keeps everything - nothing is delivered on it, so nothing can be delivered twice or dropped by it
                    a__ = drain.node.args
                    pos__ = a__.posonlyargs + a__.args
                    dfl__ = {p_.arg: d_ for p_, d_ in zip(pos__[len(pos__) - len(a__.defaults):], a__.defaults)}
                    dfl__.update({p_.arg: d_ for p_, d_ in zip(a__.kwonlyargs, a__.kw_defaults) if d_ is not None})
                    for c_txt, v_ in p.conds:
                        m__ = c_txt.strip("()")
                        neg__ = m__.startswith("not ")
                        nm__ = m__[4:].strip("()") if neg__ else m__
                        nm__ = nm__.split("@")[0]
                        d__ = dfl__.get(nm__)
                        if isinstance(d__, ast.Constant) and isinstance(d__.value, bool):
                            flag_value = (not v_) if neg__ else v_
                            if flag_value != d__.value:
                                ok = True
                                run.note(f"data_to_send: the path under {nm__}={flag_value} returns a copy and keeps the buffer (a look without consuming): not a delivery")
            # the cut value must be the same SSA value: `hi` text contains versions, so equality of text is equality of value
            # and the return must have been computed from the buffer before it was cut
            run.ob("D2-complementary-slices", ok, dict(label, retained=[expand(str(v), defs)[:100] for k, v, s in buf_ops]))
            if not ok:
                run.fail(Finding("D2-complementary-slices", drain.qualname, f"return {rt[:60]} | keep {[expand(str(v), defs)[:60] for k, v, s in buf_ops]}", why,
                                 model.loc(drain.module, buf_ops[0][2] if buf_ops else p.ret_stmt)))
            # ordering: the returned slice must be evaluated before the buffer is cut
            ret_var_def_before = True
            if buf_ops:
                cut_line = min(getattr(o[2], "lineno", 0) for o in buf_ops)
                # the returned expression may not read the buffer attribute itself after the cut, nor a local bound after it
                raw_mentions_buffer = any(isinstance(x, ast.Attribute) and x.attr == OBUF for x in ast.walk(p.ret))
                late_local = any(isinstance(x, ast.Name) and p.def_lines.get(x.id, 0) > cut_line for x in ast.walk(p.ret))
                ret_var_def_before = not raw_mentions_buffer and not late_local
            run.ob("D3-slice-taken-before-cut", ret_var_def_before, label)
            if not ret_var_def_before:
                run.fail(Finding("D3-slice-taken-before-cut", drain.qualname, f"return {rt[:60]} after cut", "the returned slice is computed after the buffer was already cut", model.loc(drain.module, p.ret_stmt)))
        else:
            # design B: read offset. returned = buf[off:end]; retention must use the same `end`
            if hi is None:
                raise AnalysisError("drain with offset returns an open-ended slice: unrecognised shape")
            ok = False
            why = "offset-based drain: the bytes dropped/skipped next time are not exactly the bytes returned"
            assigns = {v[0]: expand(v[1], defs) for k, v, s in p.ops if k == "attr_assign"}
            dels = [parse_slice(expand(str(v), defs)) for k, v, s in p.ops if k == "del"]
            off_attr = None
            for a in assigns:
                if a != OBUF:
                    off_attr = a
            if lo is None or off_attr is None or f"self.{off_attr}" not in lo:
                raise AnalysisError("drain with extra attributes but the returned slice does not start at the offset attribute: unrecognised shape")
            newoff = strip_parens(assigns.get(off_attr, ""))
            if OBUF in assigns:
                nb = strip_parens(assigns[OBUF])
                sl2 = parse_slice(nb)
                if sl2 and sl2[0] == key_base and canon(sl2[1] or "") == canon(hi) and sl2[2] is None and newoff == "0":
                    ok = True
                elif nb in ("bytearray()",) and newoff == "0":
                    # legal only when everything pending was returned: path condition hi == len(buffer)
                    full = {canon(f"({hi}) == len({key_base})"), canon(f"len({key_base}) == ({hi})")}
                    ok = any(v is True and canon(expand(c, defs)) in full for c, v in p.conds)
                    why = "buffer released although the returned slice may not reach its end"
            elif dels:
                d = dels[0]
                ok = bool(d) and d[0] == key_base and d[1] in (None, "0") and canon(d[2] or "") == canon(hi) and newoff == "0" and len(dels) == 1
                if not ok and bool(d) and d[0] == key_base and d[1] in (None, "0") and d[2] is None and newoff == "0" and len(dels) == 1:
                    # everything deleted: exactly the consumed prefix when the path says the returned slice reached the end of the buffer
                    full = {canon(f"({hi}) == len({key_base})"), canon(f"len({key_base}) == ({hi})"), canon(f"{hi} == len({key_base})"), canon(f"len({key_base}) == {hi}")}
                    ok = any(v is True and canon(expand(c, defs)) in full for c, v in p.conds) or canon(hi) == canon(f"len({key_base})")
                why = "prefix deleted from the buffer is not exactly the consumed prefix (up to the end of the returned slice)"
            else:
                ok = canon(newoff) == canon(hi)
                why = "new read offset is not the end of the returned slice"
            run.ob("D2-complementary-slices", ok, dict(label, design="offset", new_offset=newoff[:80]))
            # D7: slicing clamps, arithmetic does not: the end of the returned slice is also what the offset becomes, so it must not be
            # able to pass the end of the buffer - it is len(buffer), a min() with it, or the path has compared it with len(buffer)
            him = canon(hi)
            lb = canon(f"len({key_base})")
            bounded = him == lb or (him.startswith("min(") and lb in him) or \
                any(lb in canon(expand(c, defs)) and him in canon(expand(c, defs)) and any(op in expand(c, defs) for op in ("<", ">")) for c, v in p.conds)
            run.ob("D7-offset-stays-inside-the-buffer", bounded, dict(label, end=hi[:60]))
            if not bounded:
                run.fail(Finding("D7-offset-stays-inside-the-buffer", drain.qualname, f"end={hi[:60]}",
                                 f"the returned slice ends at `{hi[:60]}`, which is never compared with the length of the buffer: the slice stops at the end of the buffer, the stored "
                                 "offset does not - after one request for more than is pending the offset points past the end and the bytes queued next are skipped",
                                 model.loc(drain.module, p.ret_stmt)))
            if not ok:
                run.fail(Finding("D2-complementary-slices", drain.qualname, f"offset-drain return {rt[:60]} | newoff={newoff[:40]} | dels={dels}", why, model.loc(drain.module, p.ret_stmt)))
            other_ops = [(k, v, s) for k, v, s in other_ops if not (k in ("attr_assign", "attr_aug") and v[0] == off_attr)]
        # ---- (c) drain touches nothing else
        ok = not [o for o in other_ops if o[0] in ("attr_assign", "attr_aug")] and not [o for o in other_ops if o[0] == "call" and "self." in str(o[1])]
        run.ob("D4-drain-effect-set", ok, label)
        if not ok:
            bad = [o for o in other_ops if o[0] in ("attr_assign", "attr_aug") or (o[0] == "call" and "self." in str(o[1]))][0]
            run.fail(Finding("D4-drain-effect-set", drain.qualname, f"{bad[0]} {str(bad[1])[:80]}", "draining changes session attributes other than the outgoing buffer", model.loc(drain.module, bad[2])))
    # Engine D view: draining never changes protocol state / id sets in any class
    # (an attribute that only the drain itself and read-only properties ever read is a running total: D6 judges those)
    totals = set()
    smod = model.modules[drain.module]
    for x in ast.walk(drain.node):
        if isinstance(x, ast.Attribute) and isinstance(x.value, ast.Name) and x.value.id == "self" and isinstance(x.ctx, ast.Store):
            a_ = x.attr
            readers = set()
            for fq_, f_ in model.functions.items():
                if f_.module != drain.module or isinstance(f_.node, ast.Lambda):
                    continue
                if any(isinstance(y, ast.Attribute) and y.attr == a_ and isinstance(y.ctx, ast.Load) for y in ast.walk(f_.node)):
                    readers.add(fq_)
            if all(model.functions[r_].name == drain.name or "property" in " ".join(model.functions[r_].decorators) or
                   not any(isinstance(y, ast.Attribute) and y.attr == a_ and isinstance(y.ctx, ast.Load) and not _is_aug_target(model.functions[r_].node, y) for y in ast.walk(model.functions[r_].node))
                   for r_ in readers):
                totals.add(a_)
    totals.discard(OBUF)
    for q in SESSION_CLASSES:
        for p in ex.paths[q]:
            if p.entry != drain.name:
                continue
            bad = [e for e in p.effects if e.kind in ("state", "set_add", "set_remove", "set_discard", "set_assign", "counter", "extend") or
                   (e.kind in ("attr_assign", "attr_call") and e.a not in (OBUF,) and not str(e.a).startswith("_outgoing") and str(e.a) not in totals)]
            ok = not bad and p.post_state == p.pre_state
            run.ob("D4-drain-effect-set", ok)
            if not ok:
                run.fail(Finding("D4-drain-effect-set", f"{q}.{drain.name}", bad[0].brief() if bad else "state change", "draining affects protocol state", where(ex, bad[0]) if bad else "", p.trace()))
    # ---- (d) bytes are appended iff the call succeeds (shared instance of C10 E1)
    n = 0
    for q in SESSION_CLASSES:
        sending = set(ex.sending_entries(q))
        for p in ex.paths[q]:
            if p.entry in sending and p.outcome.kind == "raise" and not p.outcome.exc.origin.startswith("implicit:"):
                n += 1
                ok = not extends(p)
                run.ob("D5-append-iff-success", ok)
                if not ok:
                    e = extends(p)[0]
                    run.fail(Finding("D5-append-iff-success", f"{q}.{p.entry}", f"{msg_short(ext_msg(e))} queued, then {exc_short(p)}",
                                     "a send call that fails has already appended its bytes, so they are drained although the call did not succeed", where(ex, e), p.trace()))
            if p.entry in sending and p.outcome.kind == "return" and p.pre_state != "CLOSED":
                ok = len(extends(p)) == 1
                run.ob("D5-append-iff-success", ok)
                if not ok:
                    run.fail(Finding("D5-append-iff-success", f"{q}.{p.entry}", f"{len(extends(p))} appends on a successful send", "a successful send appends its message zero or several times", "", p.trace()))
    run.floor("failing send paths", n, 40)
