"""C08 - session lifecycle follows the documented machine; CLOSED is final.

Rules R1-R8 of DESIGN.md section 5 evaluated on the path summaries extracted by
Engine D from every public entry of the three session classes, from every
pre-state.
"""
from __future__ import annotations

from ..report import Finding, Run
from ..sessrules import (M, OBUF, OUT, SESSION_CLASSES, STATES, Extraction, common_coverage, exc_short, ext_msg, extends,
                         extraction, fact, is_ldap_error, is_notice_send, msg_short, path_key, session_effects, where,
                         NOTICE_ATOM, SASL_ATOM)
from ..session import SESSION_MOD, Const, desc
from ..srcmodel import Model

NEUTRAL_PREFIXES = ("register_",)
BIND_TRAFFIC = ("BindRequest", "BindResponse", "UnbindRequest")


def outstanding_before(p, eff):
    """Emptiness of the outstanding set as established before the path recorded its own id:
    the snapshot at the first add to the set if that comes before `eff`, else the snapshot at `eff`."""
    idx = p.effects.index(eff)
    adds = [e for e in p.effects[:idx] if e.kind == "set_add" and e.a == OUT]
    if adds:
        return adds[0].snap_empty.get(OUT)
    return eff.snap_empty.get(OUT)


def observable(p):
    """Effects a caller can observe on a session: state, outgoing bytes, accepted input."""
    return [e for e in p.effects if e.kind in ("state", "extend") or (e.kind in ("attr_assign", "attr_call") and str(e.a) in ("_outgoing_buffer", "_incoming_buffer", "state"))]


def incoming_notice(p) -> bool | None:
    if not p.msg_in or not p.msg_in.endswith(".ExtendedResponse"):
        return False
    return fact(p, ("eq(", NOTICE_ATOM, "msg.name"))


def check(model: Model, run: Run) -> None:
    ex = extraction(model)
    run.explanation = ("typestate extraction over sansldap._session: every path of every public entry of LDAPSession, "
                       "LDAPClient and LDAPServer from each of the four pre-states (calls on self/super() inlined through "
                       "the MRO, one pseudo-entry per incoming message class inside receive); rules R1-R8 are evaluated "
                       "on the extracted (pre-state, effects, outcome, post-state) relation against the documented machine")
    common_coverage(ex, run)
    # "protocol error closes the session": input that can never be a message is refused on arrival
    from ..readerrules import lemma_identity_before_completeness
    lemma_identity_before_completeness(model, run)
    n_state_sites = run.coverage["state_write_sites"]
    run.floor("state write sites", n_state_sites, 8)
    run.floor("paths", run.coverage["paths"], 600)

    # ---- R2 initial state / no way back -----------------------------------
    for q in SESSION_CLASSES:
        ips = ex.init_paths[q]
        ok = bool(ips) and all(p.post_state == "BEFORE_OPEN" for p in ips if p.outcome.kind != "raise")
        run.ob("R2-initial-state", ok, {"class": ex.short(q), "post": sorted({p.post_state for p in ips})})
        if not ok:
            run.fail(Finding("R2-initial-state", q + ".__init__", "post=" + ",".join(sorted({str(p.post_state) for p in ips})),
                             "a new session does not start in BEFORE_OPEN", model.loc(SESSION_MOD, model.find_method(q, "__init__").node)))
    for p in ex.all_paths():
        for e in p.effects:
            if e.kind == "state":
                bad = e.a in ("BEFORE_OPEN", "?")
                run.ob("R2-no-return-to-before-open", not bad)
                if bad:
                    run.fail(Finding("R2-no-return-to-before-open", e.func, e.text,
                                     f"state written with {e.a}: BEFORE_OPEN is only the initial state and every write must be a SessionState member",
                                     where(ex, e), p.trace()))

    for q in SESSION_CLASSES:
        sending = set(ex.sending_entries(q))
        operations = sending | {"receive"}
        run.coverage.setdefault("sending_entries", {})[ex.short(q)] = sorted(sending)
        for p in ex.paths[q]:
            neutral = p.entry not in operations
            # ---- R1 CLOSED absorbing --------------------------------------
            if p.pre_state == "CLOSED":
                if neutral:
                    ok = p.post_state == "CLOSED" and not any(e.kind in ("state", "extend") for e in p.effects)
                    run.ob("R1-closed-absorbing(neutral)", ok)
                    if not ok:
                        run.fail(Finding("R1-closed-absorbing", f"{q}.{p.entry}", path_key(p),
                                         "a non-protocol entry changes state or emits bytes on a CLOSED session",
                                         model.loc(SESSION_MOD, model.find_method(q, p.entry).node), p.trace()))
                else:
                    eff = observable(p)
                    raised = p.outcome.kind == "raise" and is_ldap_error(ex, p.outcome.exc.cls) and p.outcome.exc.origin == "explicit"
                    # external failures before the gate (argument conversion) are also rejections with no effect
                    raised_ext = p.outcome.kind == "raise" and p.outcome.exc.origin.startswith("external:")
                    ok = (raised or raised_ext) and not eff and p.post_state == "CLOSED"
                    run.ob("R1-closed-absorbing", ok, {"entry": f"{ex.short(q)}.{p.entry}", "pre": "CLOSED",
                                                        "outcome": exc_short(p) or "return", "effects": [e.brief() for e in eff]})
                    if not ok:
                        first = eff[0] if eff else None
                        run.fail(Finding("R1-closed-absorbing", f"{q}.{p.entry}", path_key(p),
                                         "an operation on a CLOSED session is not rejected without effect "
                                         f"(outcome {p.outcome.kind} {exc_short(p)}, effects: {[e.brief() for e in eff][:4]}, post-state {p.post_state})",
                                         where(ex, first) if first else model.loc(SESSION_MOD, model.find_method(q, p.entry).node), p.trace()))
            # ---- neutral entries never touch protocol state ---------------
            if neutral and p.pre_state != "CLOSED":
                ok = p.post_state == p.pre_state and not any(e.kind == "state" for e in p.effects)
                run.ob("R9-neutral-entries", ok)
                if not ok:
                    run.fail(Finding("R9-neutral-entries", f"{q}.{p.entry}", path_key(p),
                                     "data_to_send/register_* changes the session state", model.loc(SESSION_MOD, model.find_method(q, p.entry).node), p.trace()))
            # ---- any transition out of CLOSED ------------------------------
            if p.pre_state == "CLOSED" and p.post_state != "CLOSED":
                run.fail(Finding("R1-closed-absorbing", f"{q}.{p.entry}", path_key(p) + "|leaves-CLOSED",
                                 f"session leaves CLOSED (post-state {p.post_state})", "", p.trace()))
            if p.pre_state == "CLOSED":
                continue
            exts = extends(p)
            # ---- R3 BINDING entry ------------------------------------------
            for e in p.effects:
                if e.kind == "state" and e.a == "BINDING":
                    sent_bind = [x for x in exts if msg_short(ext_msg(x)) == "BindRequest" and p.effects.index(x) < p.effects.index(e)]
                    recv_bind = bool(p.msg_in and p.msg_in.endswith(".BindRequest"))
                    if sent_bind:
                        empty_ok = outstanding_before(p, sent_bind[0]) == "empty"
                    elif recv_bind:
                        empty_ok = e.snap_empty.get(OUT) == "empty"
                    else:
                        # state write before the send (the F6 shape): look at a later extend
                        later = [x for x in exts if msg_short(ext_msg(x)) == "BindRequest"]
                        empty_ok = bool(later) and outstanding_before(p, later[0]) == "empty"
                        sent_bind = later
                    ok = bool(sent_bind or recv_bind) and empty_ok
                    run.ob("R3-binding-entry", ok, {"entry": f"{ex.short(q)}.{p.entry}", "pre": p.pre_state, "bind": "sent" if sent_bind else "received",
                                                     "outstanding": "empty" if empty_ok else "not established empty"})
                    if not ok:
                        run.fail(Finding("R3-binding-entry", e.func, f"{e.text}|bind={'y' if (sent_bind or recv_bind) else 'n'}|empty={'y' if empty_ok else 'n'}",
                                         "state := BINDING on a path that is not a bind request sent/received with no other operation outstanding",
                                         where(ex, e), p.trace()))
            # ---- R3b a bind request sent/received must enter BINDING --------
            bind_sent = any(msg_short(ext_msg(x)) == "BindRequest" for x in exts)
            bind_recv = bool(p.msg_in and p.msg_in.endswith(".BindRequest"))
            if (bind_sent or bind_recv) and p.outcome.kind == "return" and ex.short(q) != "LDAPSession":
                expected = (q.endswith("LDAPClient") and bind_sent) or (q.endswith("LDAPServer") and bind_recv)
                if expected:
                    ok = p.post_state == "BINDING"
                    run.ob("R3b-bind-enters-binding", ok, {"entry": f"{ex.short(q)}.{p.entry}", "pre": p.pre_state, "post": p.post_state})
                    if not ok:
                        run.fail(Finding("R3b-bind-enters-binding", f"{q}.{p.entry}", path_key(p),
                                         f"a bind request was {'sent' if bind_sent else 'received'} but the session is {p.post_state}, not BINDING", "", p.trace()))
            # ---- R4 BINDING exit -------------------------------------------
            if p.pre_state == "BINDING" and p.post_state not in ("BINDING", "CLOSED"):
                ok = p.post_state == "OPENED"
                if ok:
                    sent = [x for x in exts if msg_short(ext_msg(x)) == "BindResponse"]
                    if sent:
                        rc = ext_msg(sent[0]).fields.get("result")
                        rcv = rc.fields.get("result_code") if hasattr(rc, "fields") else None
                        ok = fact(p, ("eq(", SASL_ATOM, desc(rcv))) is False
                    elif p.msg_in and p.msg_in.endswith(".BindResponse"):
                        ok = fact(p, ("eq(", SASL_ATOM, "msg.result.result_code")) is False
                    else:
                        ok = False
                run.ob("R4-binding-exit", ok, {"entry": f"{ex.short(q)}.{p.entry}", "pre": "BINDING", "post": p.post_state, "incoming": p.msg_in})
                if not ok:
                    run.fail(Finding("R4-binding-exit", f"{q}.{p.entry}", path_key(p),
                                     f"session leaves BINDING for {p.post_state} without a BindResponse that is not SASL-bind-in-progress", "", p.trace()))
            # ---- R4b completed bind leaves BINDING ---------------------------
            if p.pre_state == "BINDING" and p.outcome.kind == "return":
                done = None
                sent = [x for x in exts if msg_short(ext_msg(x)) == "BindResponse"]
                if sent and q.endswith("LDAPServer"):
                    rc = ext_msg(sent[0]).fields.get("result")
                    rcv = rc.fields.get("result_code") if hasattr(rc, "fields") else None
                    done = fact(p, ("eq(", SASL_ATOM, desc(rcv)))
                    done = (done is False)
                elif p.msg_in and p.msg_in.endswith(".BindResponse") and q.endswith("LDAPClient"):
                    f_ = fact(p, ("eq(", SASL_ATOM, "msg.result.result_code"))
                    done = (f_ is False)
                if done:
                    ok = p.post_state == "OPENED"
                    run.ob("R4b-bind-completion-opens", ok)
                    if not ok:
                        run.fail(Finding("R4b-bind-completion-opens", f"{q}.{p.entry}", path_key(p),
                                         f"a final bind response was {'sent' if sent else 'received'} but the session stays {p.post_state}", "", p.trace()))
            # ---- R5 BINDING gate -------------------------------------------
            if p.pre_state == "BINDING":
                for e in exts:
                    o = ext_msg(e)
                    k = msg_short(o)
                    ok = k in BIND_TRAFFIC or (k == "ExtendedResponse" and is_notice_send(p, e) is True)
                    run.ob("R5-binding-gate", ok, {"entry": f"{ex.short(q)}.{p.entry}", "sent": k})
                    if not ok:
                        run.fail(Finding("R5-binding-gate", f"{q}.{p.entry}", f"sends {k} while BINDING",
                                         f"{k} can be sent while the session is BINDING (only bind traffic, unbind or a notice of disconnection may)",
                                         where(ex, e), p.trace()))
            # ---- R6 closing events -----------------------------------------
            closing = None
            for e in exts:
                k = msg_short(ext_msg(e))
                if k == "UnbindRequest":
                    closing = "unbind sent"
                elif k == "ExtendedResponse" and is_notice_send(p, e) is True:
                    closing = "notice of disconnection sent"
            if p.outcome.kind == "return" and closing:
                ok = p.post_state == "CLOSED"
                run.ob("R6-closing-events", ok, {"entry": f"{ex.short(q)}.{p.entry}", "event": closing, "post": p.post_state})
                if not ok:
                    run.fail(Finding("R6-closing-events", f"{q}.{p.entry}", f"{closing}|post={p.post_state}",
                                     f"{closing} but the session ends {p.post_state}, not CLOSED", "", p.trace()))
            if p.entry == "receive":
                ev = None
                if p.msg_in and p.msg_in.endswith(".UnbindRequest"):
                    ev = "unbind received"
                elif incoming_notice(p) is True:
                    ev = "notice of disconnection received"
                elif p.outcome.kind == "raise" and p.outcome.exc.cls.endswith(".ProtocolError"):
                    ev = "ProtocolError raised by receive"
                if ev:
                    ok = p.post_state == "CLOSED" and p.outcome.kind == "raise"
                    run.ob("R6-closing-events", ok, {"entry": f"{ex.short(q)}.receive", "event": ev, "post": p.post_state})
                    if not ok:
                        run.fail(Finding("R6-closing-events", f"{q}.receive", f"{ev}|post={p.post_state}|out={p.outcome.kind}",
                                         f"{ev} but receive ends with state {p.post_state} / outcome {p.outcome.kind}", "", p.trace()))
            # ---- R8 refused/failed sends leave the state alone ---------------
            if not neutral and p.entry != "receive" and p.outcome.kind == "raise":
                allowed = {p.pre_state} | ({"OPENED"} if p.pre_state == "BEFORE_OPEN" else set())
                ok = p.post_state in allowed
                run.ob("R8-refused-send-keeps-state", ok, {"entry": f"{ex.short(q)}.{p.entry}", "pre": p.pre_state, "raise": exc_short(p), "post": p.post_state})
                if not ok:
                    w = [e for e in p.effects if e.kind == "state"]
                    run.fail(Finding("R8-refused-send-keeps-state", f"{q}.{p.entry}", path_key(p),
                                     f"a call that fails with {exc_short(p)} ({p.outcome.exc.origin}) moves the session from {p.pre_state} to {p.post_state}",
                                     where(ex, w[-1]) if w else "", p.trace()))
            # ---- R10 only documented transitions ------------------------------
            if p.outcome.kind == "return" and p.pre_state != p.post_state:
                t = (p.pre_state, p.post_state)
                ok = t in {("BEFORE_OPEN", "OPENED"), ("BEFORE_OPEN", "BINDING"), ("OPENED", "BINDING"), ("BINDING", "OPENED"),
                           ("BEFORE_OPEN", "CLOSED"), ("OPENED", "CLOSED"), ("BINDING", "CLOSED")}
                run.ob("R10-documented-transitions", ok)
                if not ok:
                    run.fail(Finding("R10-documented-transitions", f"{q}.{p.entry}", path_key(p), f"undocumented transition {t[0]} -> {t[1]}", "", p.trace()))
            # ---- R11 first traffic opens ----------------------------------------
            if p.pre_state == "BEFORE_OPEN" and p.outcome.kind == "return" and (exts or p.msg_in) and ex.short(q) != "LDAPSession":
                ok = p.post_state != "BEFORE_OPEN"
                run.ob("R11-opens-on-first-traffic", ok)
                if not ok:
                    run.fail(Finding("R11-opens-on-first-traffic", f"{q}.{p.entry}", path_key(p),
                                     "traffic was sent/processed but the session is still BEFORE_OPEN", "", p.trace()))
            # ---- R12 server: bind with outstanding operations is a protocol error
            if q.endswith("LDAPServer") and p.msg_in and p.msg_in.endswith(".BindRequest"):
                tested = [e for e in p.effects if e.kind == "guard" and OUT in str(e.a) and "non-empty" in str(e.a)]
                if tested and tested[0].b is True:
                    ok = p.outcome.kind == "raise" and p.post_state == "CLOSED"
                    run.ob("R12-bind-with-outstanding-rejected", ok)
                    if not ok:
                        run.fail(Finding("R12-bind-with-outstanding-rejected", f"{q}.receive", path_key(p),
                                         "a BindRequest received while operations are outstanding is not a protocol error", "", p.trace()))
            if q.endswith("LDAPClient"):
                for x in exts:
                    if msg_short(ext_msg(x)) == "BindRequest":
                        ok = outstanding_before(p, x) == "empty"
                        run.ob("R12-client-bind-needs-no-outstanding", ok, {"entry": f"LDAPClient.{p.entry}", "pre": p.pre_state, "outstanding-before-own-id": outstanding_before(p, x)})
                        if not ok:
                            run.fail(Finding("R12-client-bind-needs-no-outstanding", f"{q}.{p.entry}", f"BindRequest sent with outstanding={outstanding_before(p, x)}",
                                             "a BindRequest can be sent while other operations are (or may be) outstanding", where(ex, x), p.trace()))
    # ---- I0: BEFORE_OPEN implies empty id sets (used as pre-condition of the BEFORE_OPEN runs)
    for q in SESSION_CLASSES:
        for p in ex.init_paths[q]:
            created = {e.a: e.b for e in p.effects if e.kind == "set_assign"}
            ok = all(k in created and desc(created[k]) == "?fresh-empty-set" for k in (OUT, "_search_requests"))
            run.ob("I0-init-empty-sets", ok)
            if not ok:
                run.fail(Finding("I0-init-empty-sets", q + ".__init__", "id sets not created empty", "a new session does not start with empty id sets", "", p.trace()))
        for p in ex.paths[q]:
            if p.pre_state == "BEFORE_OPEN" and p.post_state == "BEFORE_OPEN" and p.outcome.kind == "return":
                adds = [e for e in p.effects if e.kind in ("set_add", "attr_call") or (e.kind == "set_assign" and desc(e.b) != "?fresh-empty-set")]
                ok = not adds
                run.ob("I0-before-open-sets-stay-empty", ok)
                if not ok:
                    run.fail(Finding("I0-before-open-sets-stay-empty", f"{q}.{p.entry}", path_key(p),
                                     "an id is recorded while the session stays BEFORE_OPEN", where(ex, adds[0]), p.trace()))
    run.floor("R1 obligations", run.rules.get("R1-closed-absorbing", {}).get("obligations", 0), 20)
    run.floor("R5 obligations", run.rules.get("R5-binding-gate", {}).get("obligations", 0), 6)
    run.floor("R6 obligations", run.rules.get("R6-closing-events", {}).get("obligations", 0), 20)
