"""C15 - the filter string parser is total and only accepts what it can represent."""
from __future__ import annotations

import ast
from typing import Dict, List, Optional, Set, Tuple

from ..facts import resolve_or
from ..raises import Esc, exc_is_sub
from ..report import Finding, Run
from ..srcmodel import AnalysisError, FuncInfo, Model, norm, walk_no_nested
from .c05 import may_raise

FILTER = "sansldap._filter"
ENTRY = f"{FILTER}.LDAPFilter.from_string"
FSE = f"{FILTER}.FilterSyntaxError"
PARSER_NAMES = set()
PATTERN = "_ATTRIBUTE_PATTERN"      # replaced at run time by the discovered name (see attribute_pattern_name)


def attribute_pattern_name(model: Model) -> str:
    """The compiled pattern that parser functions (reachable from from_string, not nested callbacks) use with .match."""
    from ..anchors import filt as filter_anchors
    from ..rx.sites import find_sites
    fa = filter_anchors(model)
    sites = find_sites(model, (FILTER,))
    # functions used as substitution callbacks are not part of the parser proper (they see one escape at a time)
    callbacks = {model.resolve_name(s.module, s.callback.id) for s in sites if s.api == "sub" and isinstance(s.callback, ast.Name)}
    uses = [s.name for s in sites if s.api == "match" and s.name != "<inline>" and not s.nested and s.func not in callbacks and any(s.func == f.qualname for f in fa.parser_functions)]
    names = set(uses)
    if len(names) > 1:
        # several patterns are matched by the parser (a hex check moved out of its callback, a pattern for one token): names are
        # validated at several places (attribute, extensible-match attribute, rule), the others at one
        from collections import Counter
        cnt = Counter(uses).most_common()
        if cnt[0][1] >= 2 and cnt[0][1] > cnt[1][1]:
            return cnt[0][0]
    if len(names) != 1:
        raise AnalysisError(f"attribute-description pattern not identified (candidates: {sorted(names)})")
    return names.pop()


def is_window_scanner_index(model: Model, mr, e: Esc) -> bool:
    """IndexError on a subscript of the parser's window view (a memoryview local cut out of the
    whole filter with view[offset:offset+length]): needs relational offset arithmetic; undecided."""
    fi = model.functions.get(e.func)
    if fi is None or e.exc != "IndexError" or fi.module != FILTER:
        return False
    try:
        node = ast.parse(e.text, mode="eval").body
    except SyntaxError:
        return False
    if not isinstance(node, ast.Subscript) or not isinstance(node.value, ast.Name):
        return False
    return _is_window(model, mr, fi, node.value.id, 0)


def _is_window(model: Model, mr, fi: FuncInfo, v: str, depth: int) -> bool:
    """v is the scanner's window: a local cut out of a memoryview with a slice, or a parameter that every call site in the
    module binds to such a window"""
    for n in walk_no_nested(fi.node):
        if isinstance(n, ast.Assign) and any(isinstance(t, ast.Name) and t.id == v for t in n.targets):
            val = n.value
            if isinstance(val, ast.Subscript) and isinstance(val.slice, ast.Slice) and mr.r.strip_opt(mr.r.type_of(val.value, fi)) == ("prim", "memoryview"):
                return True
    if v in fi.params() and depth < 3 and not any(isinstance(x, ast.Name) and x.id == v and isinstance(x.ctx, ast.Store) for x in walk_no_nested(fi.node)):
        idx = fi.params().index(v)
        sites = []
        for cq, cfi in model.functions.items():
            if cfi.module != fi.module or isinstance(cfi.node, ast.Lambda):
                continue
            for c in walk_no_nested(cfi.node):
                if isinstance(c, ast.Call) and isinstance(c.func, ast.Name) and model.resolve_name(cfi.module, c.func.id) == fi.qualname:
                    a = c.args[idx] if idx < len(c.args) else next((k.value for k in c.keywords if k.arg == v), None)
                    sites.append((cfi, a))
        return bool(sites) and all(isinstance(a, ast.Name) and _is_window(model, mr, cfi, a.id, depth + 1) for cfi, a in sites)
    return False


# ------------------------------------------------------------------ dimension typing
IS_TEXT = None      # set per function by check(): is this expression a str (as opposed to the encoded octets)?


def dim(e: ast.expr, env: Dict[str, str]) -> str:
    """'A' absolute position in the whole filter, 'L' relative extent, 'C' constant, '?' unknown, 'ERR:<why>'"""
    if isinstance(e, ast.Constant) and isinstance(e.value, int):
        return "C"
    if isinstance(e, ast.Name):
        return env.get(e.id, "?")
    if isinstance(e, ast.Call) and isinstance(e.func, ast.Name) and e.func.id == "len":
        if e.args and isinstance(e.args[0], ast.Name) and env.get(e.args[0].id) == "W":
            # the view parameter is the whole encoded filter, handed down unsliced: its length is the absolute end of the input,
            # not the extent of the part this call was asked to parse
            return "A"
        if e.args and IS_TEXT is not None and IS_TEXT(e.args[0]):
            # positions and extents of the scanner count octets of the encoded filter; len() of the text counts characters
            return f"ERR:{norm(e)}: a character count of the text is used where octets of its encoded form are counted"
        return "L"
    if isinstance(e, ast.BoolOp):
        errs = [x for x in (dim(v, env) for v in e.values) if x.startswith("ERR")]
        if errs:
            return errs[0]
        ds = {dim(v, env) for v in e.values} - {"C"}
        return ds.pop() if len(ds) == 1 else ("C" if not ds else "?")
    if isinstance(e, ast.BinOp) and isinstance(e.op, (ast.Add, ast.Sub)):
        a, b = dim(e.left, env), dim(e.right, env)
        if a.startswith("ERR"):
            return a
        if b.startswith("ERR"):
            return b
        if "?" in (a, b):
            return "?"
        if isinstance(e.op, ast.Add):
            if a == "A" and b == "A":
                return f"ERR:{norm(e)}: absolute + absolute"
            if "A" in (a, b):
                return "A"
            return "L" if "L" in (a, b) else "C"
        # subtraction
        if a == "A" and b == "A":
            return "L"
        if a == "A":
            return "A"
        if b == "A":
            return f"ERR:{norm(e)}: an absolute offset is subtracted from a relative length"
        return "L" if "L" in (a, b) else "C"
    if isinstance(e, ast.IfExp):
        both = [dim(e.body, env), dim(e.orelse, env)]
        errs = [x for x in both if x.startswith("ERR")]
        if errs:
            return errs[0]
        ds = set(both) - {"C"}
        return ds.pop() if len(ds) == 1 else ("C" if not ds else "?")
    if isinstance(e, ast.Call) and isinstance(e.func, ast.Name) and e.func.id in ("min", "max") and e.args and not e.keywords:
        ds_ = [dim(x, env) for x in e.args]
        errs = [x for x in ds_ if x.startswith("ERR")]
        if errs:
            return errs[0]
        ds = set(ds_) - {"C"}
        if len(ds) <= 1:
            return ds.pop() if ds else "C"
        if "?" in ds:
            return "?"
        return f"ERR:{norm(e)}: min/max of a position and an extent"
    return "?"


def dim_env(fi: FuncInfo) -> Dict[str, str]:
    env: Dict[str, str] = {}
    for p in fi.params():
        if p == "offset":
            env[p] = "A"
        elif p == "length":
            env[p] = "L"
    if not isinstance(fi.node, ast.Lambda) and {"offset", "length"} <= set(fi.params()):
        stores = {x.id for x in walk_no_nested(fi.node) if isinstance(x, ast.Name) and isinstance(x.ctx, ast.Store)}
        for a in fi.node.args.posonlyargs + fi.node.args.args + fi.node.args.kwonlyargs:
            if a.annotation is not None and "memoryview" in norm(a.annotation) and a.arg not in stores:
                env[a.arg] = "W"          # the whole input, of which (offset, length) name a part
    nodes = sorted((n for n in walk_no_nested(fi.node) if isinstance(n, (ast.Assign, ast.AnnAssign, ast.AugAssign, ast.For))), key=lambda n: n.lineno)
    for _ in range(3):
        for n in nodes:
            if isinstance(n, ast.For):
                if isinstance(n.target, ast.Name) and isinstance(n.iter, ast.Call) and norm(n.iter.func) == "range":
                    env.setdefault(n.target.id, "L")
                elif isinstance(n.target, ast.Tuple) and isinstance(n.iter, ast.Call) and norm(n.iter.func) == "enumerate" and isinstance(n.target.elts[0], ast.Name):
                    env.setdefault(n.target.elts[0].id, "L")
                continue
            if isinstance(n, ast.AugAssign):
                if isinstance(n.target, ast.Name) and n.target.id in env:
                    continue
                continue
            tg = n.targets[0] if isinstance(n, ast.Assign) else n.target
            if n.value is None:
                continue
            if isinstance(tg, ast.Name):
                if tg.id in ("offset", "length") and tg.id in env:
                    continue
                d = dim(n.value, env)
                if d in ("A", "L"):
                    if env.get(tg.id, d) != d and not d.startswith("ERR"):
                        env[tg.id] = "?"
                    else:
                        env[tg.id] = d
                elif d.startswith("ERR") and "character count" in d:
                    env[tg.id] = d
                elif d == "C" and tg.id not in env:
                    env[tg.id] = "L" if isinstance(n.value, ast.Constant) else env.get(tg.id, "?")
            elif isinstance(tg, ast.Tuple) and isinstance(n.value, ast.Call):
                # (filter, consumed) = parser(...): the second component is a consumed count
                if len(tg.elts) == 2 and isinstance(tg.elts[1], ast.Name) and norm(n.value.func) in PARSER_NAMES:
                    env[tg.elts[1].id] = "L"
    return env


def check(model: Model, run: Run) -> None:
    global IS_TEXT
    mr = may_raise(model)
    run.explanation = ("(1) may-raise analysis from LDAPFilter.from_string: the only exception class that can leave is FilterSyntaxError "
                       "(IndexError on the scanner's window view is NOT decided: it needs relational offset arithmetic and is listed as undecided); "
                       "(2) dimension typing of the parser's integers (absolute position vs relative extent): every FilterSyntaxError and every "
                       "recursive call receives (absolute offset, relative length) - a necessary condition for 'offset and length lie inside the "
                       "input'; (3) every attribute description / matching rule that reaches a filter constructor passed a match of the attribute "
                       "pattern on that path, and the pattern's language is included in RFC 4512's (regular-language inclusion, Engine E)")
    model.func(ENTRY)
    # the rejection is a FilterSyntaxError, and a FilterSyntaxError is a ValueError (what `except ValueError` around from_string relies on)
    global FSE
    FSE = model.resolve_name(FILTER, "FilterSyntaxError") or f"{FILTER}.FilterSyntaxError"      # wherever the class is defined (it may have moved to a module of its own)
    fse = model.classes.get(FSE)
    if fse is None:
        raise AnalysisError("FilterSyntaxError not found")
    chain = []
    todo_ = list(fse.bases)
    seen_ = set()
    while todo_:
        b_ = todo_.pop()
        if b_ in seen_:
            continue
        seen_.add(b_)
        chain.append(b_.split(".")[-1])
        if b_ in model.classes:
            todo_.extend(model.classes[b_].bases)
    ok_ = "ValueError" in chain
    run.ob("F10-rejections-are-value-errors", ok_, {"bases": sorted(chain)})
    if not ok_:
        run.fail(Finding("F10-rejections-are-value-errors", FSE, f"bases={sorted(chain)}",
                         f"FilterSyntaxError derives from {sorted(chain)}, not from ValueError: callers that guard from_string with `except ValueError` let every rejection through",
                         model.loc(fse.module, fse.node)))
    # what an accepted filter is rendered as parses back to it: a piece of the text is read by what is in it, not by what follows it
    from .c13 import delimiter_searches_stay_in_their_piece
    delimiter_searches_stay_in_their_piece(model, run, "F9-delimiter-search-stays-in-its-piece")
    global PATTERN, PARSER_NAMES
    PATTERN = attribute_pattern_name(model)
    from ..anchors import filt as filter_anchors
    fa_ = filter_anchors(model)
    PARSER_NAMES = {f.name for f in fa_.parser_functions}
    escs = mr.escapes(ENTRY, None)
    if mr.unknown_calls:
        raise AnalysisError("unresolved call sites on the from_string path: " + "; ".join(sorted(set(mr.unknown_calls))[:5]))
    reach = sorted({k[0] for k in mr.summ if k[0].startswith(FILTER)})
    run.coverage["functions_analysed"] = len(reach)
    run.floor("filter functions reachable from from_string", len(fa_.parser_functions), 6)
    undecided = []
    for e in sorted(escs, key=lambda e: (e.exc, e.func, e.line)):
        if exc_is_sub(model, e.exc, FSE):
            run.ob("F1-total", True)
            continue
        if is_window_scanner_index(model, mr, e):
            undecided.append(e.short())
            continue
        run.ob("F1-total", False, {"exception": e.exc, "origin": e.short()})
        run.fail(Finding("F1-total", e.func, f"{e.exc.split('.')[-1]}|{e.text[:80]}",
                         f"{e.exc.split('.')[-1]} can leave LDAPFilter.from_string: raised at `{e.text[:80]}` ({e.kind}{'; ' + e.why if e.why else ''}); it is not a FilterSyntaxError",
                         f"{model.relpath(FILTER)}:{e.line}", [e.short()]))
    run.coverage["undecided_index_sites"] = undecided
    for u in undecided:
        run.note("undecided (window-view index, relational arithmetic): " + u)
    pq = {f.qualname for f in fa_.parser_functions}
    fsites = [s for s in mr.implicit_sites if s["function"] in pq or s["function"].startswith(FILTER + "._unpack") or s["function"].startswith(ENTRY)]
    run.floor("implicit raiser sites in the string parser", len(fsites), 15)
    for s in fsites[:10]:
        run.samples.append({"site": f"{s['function'].split('.')[-1]}: {s['construct']}", "verdict": s["verdict"], "reason": s["reason"]})
    # ---- (2) dimension typing ------------------------------------------------------
    n_sites = 0
    for fq in reach:
        fi = model.functions[fq]
        if isinstance(fi.node, ast.Lambda):
            continue
        global IS_TEXT
        IS_TEXT = lambda x, fi=fi: mr.r.strip_opt(mr.r.type_of(x, fi)) in (("prim", "str"), ("prim", "strlike"))
        env = dim_env(fi)
        for n in walk_no_nested(fi.node):
            if not isinstance(n, ast.Call):
                continue
            q = model.resolve_name(fi.module, norm(n.func)) if isinstance(n.func, (ast.Name, ast.Attribute)) else None
            args: Dict[str, ast.expr] = {}
            if q == FSE:
                names = ["msg", "filter", "offset", "length"]
                for nm, a in zip(names, n.args):
                    args[nm] = a
            elif q in model.functions and model.functions[q].module == FILTER and {"offset", "length"} <= set(model.functions[q].params()):
                names = model.functions[q].params()
                for nm, a in zip(names, n.args):
                    args[nm] = a
            else:
                continue
            for k in n.keywords:
                if k.arg:
                    args[k.arg] = k.value
            for pname, want in (("offset", "A"), ("length", "L")):
                if pname not in args:
                    continue
                n_sites += 1
                d = dim(args[pname], env)
                ok = d in (want, "C", "?") and not d.startswith("ERR")
                if not ok and "offset" not in fi.params() and not d.startswith("ERR"):
                    ok = True      # entry point: the window starts at 0, so relative and absolute coincide
                # a constant offset is only meaningful at the entry point (the whole filter)
                run.ob("F2-offset-length-dimensions", ok, {"function": fq.split(".")[-1], "callee": (q or "").split(".")[-1], pname: norm(args[pname]), "dimension": d})
                if not ok:
                    why = d[4:] if d.startswith("ERR") else f"`{norm(args[pname])}` is {'an absolute position' if d == 'A' else 'a relative extent'} but `{pname}` needs {'an absolute position' if want == 'A' else 'a relative extent'}"
                    run.fail(Finding("F2-offset-length-dimensions", fq, f"{(q or '').split('.')[-1]}({pname}={norm(args[pname])})",
                                     f"{pname} passed to {(q or '').split('.')[-1]} mixes positions and extents: {why}", model.loc(fi.module, n)))
    run.floor("offset/length argument sites", n_sites, 40)
    # what the error object itself stores: its constructor keeps the span it is given, in the unit it is given in
    fse_init = model.find_method(FSE, "__init__")
    if fse_init is not None:
        IS_TEXT = lambda x, fi=fse_init: mr.r.strip_opt(mr.r.type_of(x, fi)) in (("prim", "str"), ("prim", "strlike"))
        env0 = dim_env(fse_init)
        for a in walk_no_nested(fse_init.node):
            if isinstance(a, ast.Assign) and len(a.targets) == 1 and isinstance(a.targets[0], ast.Attribute) and norm(a.targets[0].value) == "self" and a.targets[0].attr in ("offset", "length"):
                want = "A" if a.targets[0].attr == "offset" else "L"
                d = dim(a.value, env0)
                if isinstance(a.value, ast.Call) and isinstance(a.value.func, ast.Name) and a.value.func.id in ("min", "max"):
                    ds = [dim(x, env0) for x in a.value.args]
                    errs = [x for x in ds if x.startswith("ERR")]
                    d = errs[0] if errs else (ds[0] if len(set(ds) - {"C"}) <= 1 else f"ERR:{norm(a.value)}: min/max of a position and an extent")
                ok = not d.startswith("ERR") and d in (want, "C", "?")
                run.ob("F2-offset-length-dimensions", ok, {"function": "FilterSyntaxError.__init__", a.targets[0].attr: norm(a.value), "dimension": d})
                if not ok:
                    run.fail(Finding("F2-offset-length-dimensions", fse_init.qualname, f"self.{a.targets[0].attr}={norm(a.value)}"[:80],
                                     f"FilterSyntaxError stores {a.targets[0].attr} = `{norm(a.value)[:60]}`: {d[4:] if d.startswith('ERR') else 'a position and an extent are mixed'}; "
                                     "the reported span can then lie outside the input (negative length for non-ASCII text)", model.loc(fse_init.module, a)))
    # F5: (offset, length) name one span - whoever moves the start must also shorten the extent.  A call / error that is handed
    # the function's own untouched `length` must be handed its own untouched `offset` too.
    n_pairs = 0
    for fq in reach:
        fi = model.functions[fq]
        if isinstance(fi.node, ast.Lambda) or not {"offset", "length"} <= set(fi.params()):
            continue
        stores = {x.id for x in walk_no_nested(fi.node) if isinstance(x, ast.Name) and isinstance(x.ctx, ast.Store)}
        if "length" in stores:
            continue
        # locals that are only ever an alias of the untouched offset parameter
        def is_own_offset(e: ast.expr) -> bool:
            if isinstance(e, ast.Name) and e.id == "offset" and "offset" not in stores:
                return True
            if isinstance(e, ast.Name) and e.id in stores:
                binds = [a.value for a in walk_no_nested(fi.node) if isinstance(a, (ast.Assign, ast.AnnAssign)) and a.value is not None and
                         any(isinstance(t, ast.Name) and t.id == e.id for t in (a.targets if isinstance(a, ast.Assign) else [a.target]))]
                augs = [a for a in walk_no_nested(fi.node) if isinstance(a, ast.AugAssign) and isinstance(a.target, ast.Name) and a.target.id == e.id]
                return bool(binds) and not augs and all(is_own_offset(b) for b in binds)
            return False
        for n in walk_no_nested(fi.node):
            if not isinstance(n, ast.Call):
                continue
            q = model.resolve_name(fi.module, norm(n.func)) if isinstance(n.func, (ast.Name, ast.Attribute)) else None
            if q == FSE:
                names = ["msg", "filter", "offset", "length"]
            elif q in model.functions and model.functions[q].module == FILTER and {"offset", "length"} <= set(model.functions[q].params()):
                names = model.functions[q].params()
            else:
                continue
            args = dict(zip(names, n.args))
            args.update({k.arg: k.value for k in n.keywords if k.arg})
            if "offset" in args and "length" in args and isinstance(args["length"], ast.Name) and args["length"].id == "length":
                n_pairs += 1
                ok = is_own_offset(args["offset"])
                run.ob("F5-span-pairing", ok, {"function": fq.split(".")[-1], "offset": norm(args["offset"]), "length": "length"})
                if not ok:
                    run.fail(Finding("F5-span-pairing", fq, f"{(q or '').split('.')[-1]}(offset={norm(args['offset'])}, length=length)",
                                     f"{fi.name} reports/forwards the span (offset={norm(args['offset'])}, length=length): the start was moved but the extent is still the whole "
                                     "span's, so offset + length can point past the end of the input", model.loc(fi.module, n)))
    run.floor("whole-span (offset, length) pairs", n_pairs, 5)
    # ---- (3a) attribute/rule strings are validated before they reach a constructor ----
    guard_rule(model, mr, run, reach)
    # "only accepts what it can faithfully represent": an escape is backslash + exactly two hex digits, nothing more lenient
    from ..rx.sites import find_sites as _fs
    from .c13 import strict_hex_decoding
    pq = {f.qualname for f in fa_.parser_functions}
    un = [s_ for s_ in _fs(model, (FILTER,)) if s_.module == FILTER and s_.api == "sub" and s_.func.split(".<locals>")[0] in pq]
    if len(un) == 1:
        strict_hex_decoding(model, run, un[0], "F6-escape-digits-decoded-strictly")
    else:
        run.note(f"un-escaper substitution not identified ({len(un)} candidates): F6 not decided")
    # ---- (3b) the pattern's language (Engine E) ---------------------------------------
    try:
        from . import c15_lang
    except ImportError:
        run.note("language inclusion of the attribute pattern not available (Engine E missing)")
        return
    c15_lang.check_language(model, run)


def match_text(arg_text: str) -> str:
    return f"{PATTERN}.match({arg_text})"


def validated(model: Model, mr, fi: FuncInfo, expr: ast.expr, at: ast.AST, depth: int = 0) -> Tuple[bool, str]:
    """Is the string `expr` (an argument of a filter constructor at node `at`) known to have matched the attribute pattern?"""
    if isinstance(expr, ast.Constant) and expr.value is None:
        return True, "None"
    fl = mr.flow_for(fi)
    facts = resolve_or(fl.facts_at.get(id(at), frozenset()))
    txt = norm(expr)
    if ("T", match_text(txt)) in facts or ("NN", match_text(txt)) in facts:
        return True, "dominating successful match"
    if isinstance(expr, ast.Name) and depth < 3:
        # bound from a tuple-unpack of a helper call: every returned component must be validated in the helper
        for n in walk_no_nested(fi.node):
            if isinstance(n, ast.Assign) and isinstance(n.targets[0], ast.Tuple) and isinstance(n.value, ast.Call):
                names = [e.id if isinstance(e, ast.Name) else None for e in n.targets[0].elts]
                if expr.id in names:
                    idx = names.index(expr.id)
                    q = model.resolve_name(fi.module, norm(n.value.func))
                    if q in model.functions:
                        return helper_component_validated(model, mr, model.functions[q], idx)
                    try:
                        res = mr.r.callees(n.value, fi, None)
                    except Exception:
                        res = ("unknown",)
                    if res[0] == "funcs" and res[1]:
                        # a method of the parser object (every implementation it may resolve to)
                        outs = [helper_component_validated(model, mr, g, idx) for g in res[1]]
                        bad = [o for o in outs if not o[0]]
                        return bad[0] if bad else outs[0]
        # plain assignments: every one must be a validated value
        binds = [n for n in walk_no_nested(fi.node) if isinstance(n, ast.Assign) and any(isinstance(t, ast.Name) and t.id == expr.id for t in n.targets)]
        if binds:
            for b in binds:
                bf = resolve_or(fl.facts_at.get(id(b), frozenset()))
                v = b.value
                if isinstance(v, ast.Constant) and v.value is None:
                    continue
                vt = norm(v)
                if ("T", match_text(vt)) in bf or ("NN", match_text(vt)) in bf:
                    continue
                if isinstance(v, ast.Call) and isinstance(v.func, ast.Attribute) and v.func.attr == "pop" and len(v.args) == 1 and isinstance(v.args[0], ast.Constant) and v.args[0].value == 0:
                    if ("T", match_text(f"{norm(v.func.value)}[0]")) in bf or ("NN", match_text(f"{norm(v.func.value)}[0]")) in bf:
                        continue
                return False, f"`{expr.id} = {vt[:50]}` is not dominated by a successful {PATTERN}.match of that value"
            return True, "every binding validated"
    return False, f"no dominating {PATTERN}.match({txt})"


def helper_component_validated(model: Model, mr, fi: FuncInfo, idx: int) -> Tuple[bool, str]:
    rets = [n for n in walk_no_nested(fi.node) if isinstance(n, ast.Return)]
    if not rets:
        return False, "helper has no return"
    for r in rets:
        if not (isinstance(r.value, ast.Tuple) and idx < len(r.value.elts)):
            return False, "helper does not return a tuple"
        ok, why = validated(model, mr, fi, r.value.elts[idx], r, 1)
        if not ok:
            return False, f"{fi.name}: {why}"
    return True, f"validated inside {fi.name}"


def guard_rule(model: Model, mr, run: Run, reach: List[str]) -> None:
    filt_classes = set(model.subclasses(f"{FILTER}.LDAPFilter", strict=True))
    n = 0
    for fq in reach:
        fi = model.functions[fq]
        if isinstance(fi.node, ast.Lambda) or (fi.cls is not None and (fi.cls in filt_classes or fi.cls == f"{FILTER}.LDAPFilter")):
            continue
        for c in walk_no_nested(fi.node):
            if not isinstance(c, ast.Call):
                continue
            q = model.resolve_name(fi.module, norm(c.func)) if isinstance(c.func, (ast.Name, ast.Attribute)) else None
            qs = [q] if q in filt_classes else []
            if not qs and isinstance(c.func, (ast.Subscript, ast.Call)):
                # a constructor picked from a dispatch table: every class in the table is built from these arguments
                try:
                    res = mr.r.callees(c, fi, None)
                except Exception:
                    res = ("unknown",)
                if res[0] == "multi":
                    qs = [r_[1] for r_ in res[1] if r_[0] == "ctor" and r_[1] in filt_classes]
            for q in qs:
              fields = [f for f in model.dataclass_fields(q) if f.init]
              bound: Dict[str, ast.expr] = {}
              for f, a in zip(fields, c.args):
                bound[f.name] = a
              for k in c.keywords:
                if k.arg:
                    bound[k.arg] = k.value
              for fname in ("attribute", "rule"):
                if fname in bound:
                    n += 1
                    ok, why = validated(model, mr, fi, bound[fname], c)
                    run.ob("F3-validated-before-construction", ok, {"constructor": q.split(".")[-1], "field": fname, "value": norm(bound[fname]), "why": why})
                    if not ok:
                        run.fail(Finding("F3-validated-before-construction", fq, f"{q.split('.')[-1]}.{fname}={norm(bound[fname])}",
                                         f"the {fname} handed to {q.split('.')[-1]} is not known to have matched the attribute-description pattern on this path: {why}",
                                         model.loc(fi.module, c)))
    run.floor("attribute/rule constructor arguments", n, 8)
