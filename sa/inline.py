"""Source-level inlining of private reader helpers, so that the grammar extractor sees one flat decoder.

`x = helper(reader, ...)`, `a, b = helper(...)`, `lst.extend(helper(...))`, `lst.append(helper(...))`, `return helper(...)`,
`Cls(f=helper(...))`, `helper(...).decode(enc)` and a bare `helper(...)` are replaced by the helper's body with its locals
renamed apart, its parameters bound to the arguments, and its (single, final) return value bound to the target.  Helpers
are module-level functions of the same module with a parameter annotated ASN1Reader or ASN1Header; guard clauses are put
in nested form first (`normalise` is passed in by the extractor).  A helper that cannot be brought into single-exit form,
that is recursive, decorated, a generator, or returns a header / a bool (those have their own treatment in the extractor)
is left as a call."""
from __future__ import annotations

import ast
import copy
from typing import Callable, Dict, List, Optional, Set

from .srcmodel import FuncInfo, Model, norm


class Inliner:
    def __init__(self, model: Model, normalise: Callable[[List[ast.stmt]], List[ast.stmt]], cls_q: Optional[str] = None):
        self.m = model
        self.cls_q = cls_q
        self.normalise = normalise
        self.counter = 0
        self.inlined: List[str] = []

    # ---------------------------------------------------------------- which helpers
    def helper_of(self, module: str, call: ast.Call, stack: List[str]) -> Optional[FuncInfo]:
        hf = None
        if isinstance(call.func, ast.Name):
            q = self.m.resolve_name(module, call.func.id)
            hf = self.m.functions.get(q) if q else None
            if hf is not None and (hf.cls is not None or hf.node.decorator_list if not isinstance(hf.node, ast.Lambda) else True):
                return None
        elif isinstance(call.func, ast.Attribute) and isinstance(call.func.value, ast.Name) and call.func.value.id in ("cls", "self") and self.cls_q and \
                call.func.attr.startswith("_") and not call.func.attr.startswith("__"):
            # a private method of the decoder's own class hierarchy that is handed the reader (cls._read_common(reader, ...))
            hf = self.m.find_method(self.cls_q, call.func.attr)
            if hf is not None and not isinstance(hf.node, ast.Lambda):
                decs = [norm(d).split(".")[-1] for d in hf.node.decorator_list]
                if any(d not in ("classmethod", "staticmethod") for d in decs):
                    return None
        elif isinstance(call.func, ast.Attribute) and isinstance(call.func.value, ast.Name) and call.func.attr.startswith("_") and not call.func.attr.startswith("__"):
            # a private class-level decoding helper of another class of the package, called on the class: LDAPResult._unpack(reader, ...)
            cq = self.m.resolve_name(module, call.func.value.id)
            if cq in self.m.classes:
                hf = self.m.find_method(cq, call.func.attr)
                if hf is not None and not isinstance(hf.node, ast.Lambda):
                    decs = [norm(d).split(".")[-1] for d in hf.node.decorator_list]
                    if sorted(decs) not in (["classmethod"], ["staticmethod"]):
                        return None
                    # the method must not be overridden below the class it is called on (cls is that very class)
                    if any(k != cq and self.m.find_method(k, call.func.attr) is not hf for k in self.m.subclasses(cq)):
                        return None
        if hf is None or hf.module != module or isinstance(hf.node, ast.Lambda) or stack.count(hf.qualname) >= 2:
            return None
        anns = [norm(a.annotation) if a.annotation is not None else "" for a in hf.node.args.args + hf.node.args.kwonlyargs]
        makes_reader = any(isinstance(x, ast.Call) and isinstance(x.func, ast.Name) and x.func.id == "ASN1Reader" for x in ast.walk(hf.node))
        if not any(a.endswith("ASN1Reader") or a.endswith("ASN1Header") for a in anns) and not makes_reader:
            return None
        ret = norm(hf.node.returns) if hf.node.returns is not None else ""
        if ret == "bool":
            return None
        if "ASN1Header" in ret:
            # a helper that only peeks ("the next header, or None when nothing is left") is expanded; one that also tests the
            # tag keeps the extractor's dedicated treatment (its result stands for those tests)
            if any(isinstance(x, ast.Compare) for x in ast.walk(hf.node)) or any(isinstance(x, ast.Call) and isinstance(x.func, ast.Name) for x in ast.walk(hf.node)):
                return None
        if any(isinstance(x, (ast.Yield, ast.YieldFrom, ast.Global, ast.Nonlocal)) for x in ast.walk(hf.node)):
            return None
        if hf.node.args.vararg or hf.node.args.kwarg or any(isinstance(a, ast.Starred) for a in call.args) or any(k.arg is None for k in call.keywords):
            return None
        body = self.single_exit(hf)
        return hf if body is not None else None

    def single_exit(self, hf: FuncInfo) -> Optional[List[ast.stmt]]:
        body = [s for s in hf.node.body if not (isinstance(s, ast.Expr) and isinstance(s.value, ast.Constant) and isinstance(s.value.value, str))]
        body = self.normalise(list(body))
        rets = [x for b in body for x in ast.walk(b) if isinstance(x, ast.Return)]
        if len(rets) > 1 or (rets and rets[0] is not body[-1]):
            return None
        if any(isinstance(x, (ast.FunctionDef, ast.AsyncFunctionDef, ast.ClassDef)) for b in body for x in ast.walk(b)):
            return None
        return body

    # ---------------------------------------------------------------- expansion
    def expand(self, hf: FuncInfo, call: ast.Call, at: ast.stmt):
        """(statements, value expression or None)"""
        self.counter += 1
        k = self.counter
        self.inlined.append(hf.qualname)
        body = copy.deepcopy(self.single_exit(hf))
        a = hf.node.args
        allp = a.posonlyargs + a.args
        stores = {x.id for b in body for x in ast.walk(b) if isinstance(x, ast.Name) and isinstance(x.ctx, (ast.Store, ast.Del))}
        bound: Dict[str, ast.expr] = {}
        if hf.cls is not None and isinstance(call.func, ast.Attribute) and not hf.is_staticmethod and allp:
            # bound call: the callee's first parameter is the receiver
            bound[allp[0].arg] = call.func.value
            allp = allp[1:]
            first = [hf.node.args.posonlyargs + hf.node.args.args][0][0].arg
            params = [first] + [p.arg for p in allp] + [p.arg for p in a.kwonlyargs]
        else:
            params = [p.arg for p in allp] + [p.arg for p in a.kwonlyargs]
        for i, arg in enumerate(call.args):
            if i < len(allp):
                bound[allp[i].arg] = arg
        for kw in call.keywords:
            if kw.arg in params:
                bound[kw.arg] = kw.value
        defaults = {p.arg: d for p, d in zip(allp[len(allp) - len(a.defaults):], a.defaults)}
        defaults.update({p.arg: d for p, d in zip(a.kwonlyargs, a.kw_defaults) if d is not None})
        pre: List[ast.stmt] = []
        subst: Dict[str, ast.expr] = {}
        lambdas: Dict[str, ast.Lambda] = {}
        for p in params:
            val = bound.get(p, defaults.get(p))
            if val is None:
                continue
            if isinstance(val, ast.Lambda) and p not in stores and not val.args.vararg and not val.args.kwarg and not val.args.kwonlyargs:
                lambdas[p] = val                     # a callback: its calls in the body are beta-reduced
                continue
            if p not in stores and isinstance(val, (ast.Name, ast.Constant)):
                subst[p] = val                       # plain alias / constant: substitute (keeps readers, headers and tags recognisable)
            else:
                asg = ast.Assign(targets=[ast.Name(id=f"{p}__{k}", ctx=ast.Store())], value=copy.deepcopy(val))
                pre.append(ast.copy_location(asg, at))
        rename = {n: f"{n}__{k}" for n in (stores | set(params)) if n not in subst and n not in lambdas}

        class R(ast.NodeTransformer):
            def visit_Call(self, n: ast.Call):
                n = self.generic_visit(n)
                if isinstance(n.func, ast.Name) and n.func.id in lambdas and not n.keywords:
                    lam = lambdas[n.func.id]
                    lps = [x.arg for x in lam.args.args]
                    if len(lps) == len(n.args):
                        m_ = dict(zip(lps, n.args))

                        class B(ast.NodeTransformer):
                            def visit_Name(self, x: ast.Name):
                                if x.id in m_ and isinstance(x.ctx, ast.Load):
                                    return copy.deepcopy(m_[x.id])
                                return x
                        return ast.copy_location(B().visit(copy.deepcopy(lam.body)), n)
                return n

            def visit_Name(self, n: ast.Name):
                if n.id in subst and isinstance(n.ctx, ast.Load):
                    return copy.deepcopy(subst[n.id])
                if n.id in rename:
                    return ast.copy_location(ast.Name(id=rename[n.id], ctx=n.ctx), n)
                return n
        body = [R().visit(b) for b in body]
        value = None
        if body and isinstance(body[-1], ast.Return):
            value = body[-1].value
            body = body[:-1]
        out = pre + body
        for s in out:
            ast.fix_missing_locations(s)
        return out, value

    # ---------------------------------------------------------------- statement rewriting
    def block(self, stmts: List[ast.stmt], module: str, stack: List[str], depth: int = 0) -> List[ast.stmt]:
        out: List[ast.stmt] = []
        for s in stmts:
            out.extend(self.stmt(s, module, stack, depth))
        return out

    def find_call(self, e: ast.AST, module: str, stack: List[str]) -> Optional[ast.Call]:
        for n in ast.walk(e):
            if isinstance(n, ast.Call) and self.helper_of(module, n, stack) is not None:
                return n
        return None

    def stmt(self, s: ast.stmt, module: str, stack: List[str], depth: int) -> List[ast.stmt]:
        if depth > 6:
            return [s]
        # x = A if C else None   ->   x = None ; if C: x = A      (the spelling the decoders themselves use for optional headers)
        if isinstance(s, (ast.Assign, ast.AnnAssign)) and isinstance(s.value, ast.IfExp) and isinstance(s.value.orelse, ast.Constant) and s.value.orelse.value is None \
                and depth > 0:
            tg = s.targets if isinstance(s, ast.Assign) else [s.target]
            if len(tg) == 1 and isinstance(tg[0], ast.Name):
                a0 = ast.copy_location(ast.Assign(targets=[ast.Name(id=tg[0].id, ctx=ast.Store())], value=ast.Constant(value=None)), s)
                a1 = ast.copy_location(ast.Assign(targets=[ast.Name(id=tg[0].id, ctx=ast.Store())], value=s.value.body), s)
                iff = ast.copy_location(ast.If(test=s.value.test, body=[a1], orelse=[]), s)
                for x in (a0, iff):
                    ast.fix_missing_locations(x)
                return [a0] + self.stmt(iff, module, stack, depth)
        # compound statements: only their bodies
        for fld in ("body", "orelse", "finalbody"):
            sub = getattr(s, fld, None)
            if isinstance(sub, list) and sub and isinstance(sub[0], ast.stmt) and not isinstance(s, (ast.FunctionDef, ast.ClassDef)):
                setattr(s, fld, self.block(sub, module, stack, depth))
        if isinstance(s, ast.Try):
            for h in s.handlers:
                h.body = self.block(h.body, module, stack, depth)
        if isinstance(s, (ast.If, ast.While, ast.For, ast.With, ast.Try, ast.FunctionDef, ast.ClassDef)):
            return [s]
        call = self.find_call(s, module, stack)
        if call is None:
            return [s]
        hf = self.helper_of(module, call, stack)
        body, value = self.expand(hf, call, s)
        body = self.block(body, module, stack + [hf.qualname], depth + 1)
        if value is None:
            value = ast.Constant(value=None)
        # (1) the call is the whole right-hand side / the whole statement / the returned value
        if isinstance(s, ast.Expr) and s.value is call:
            return body
        if isinstance(s, (ast.Assign, ast.AnnAssign)) and s.value is call:
            tg = s.targets[0] if isinstance(s, ast.Assign) else s.target
            if isinstance(tg, ast.Tuple) and isinstance(value, ast.Tuple) and len(tg.elts) == len(value.elts) and len(getattr(s, "targets", [tg])) == 1:
                asg = [ast.copy_location(ast.Assign(targets=[t], value=v), s) for t, v in zip(tg.elts, value.elts)]
            else:
                asg = [ast.copy_location(ast.Assign(targets=[tg] if isinstance(s, ast.AnnAssign) else s.targets, value=value), s)]
            for a_ in asg:
                ast.fix_missing_locations(a_)
            return body + self.block(asg, module, stack, depth + 1)
        if isinstance(s, ast.Return) and s.value is call:
            r = ast.copy_location(ast.Return(value=value), s)
            ast.fix_missing_locations(r)
            return body + self.block([r], module, stack, depth + 1)
        # (2) anywhere else inside the statement: bind the value to a temporary first
        tmp = f"__inl{self.counter}"
        if isinstance(value, ast.Name):
            tmp_expr: ast.expr = value
            pre: List[ast.stmt] = []
        else:
            pre = [ast.copy_location(ast.Assign(targets=[ast.Name(id=tmp, ctx=ast.Store())], value=value), s)]
            ast.fix_missing_locations(pre[0])
            tmp_expr = ast.Name(id=tmp, ctx=ast.Load())

        class Sub(ast.NodeTransformer):
            def visit_Call(self, n: ast.Call):
                if n is call:
                    return ast.copy_location(copy.deepcopy(tmp_expr), n)
                return self.generic_visit(n)
        s2 = Sub().visit(s)
        ast.fix_missing_locations(s2)
        return body + pre + self.stmt(s2, module, stack, depth + 1)


def scalar_replace(model: Model, module: str, body: List[ast.stmt]) -> List[ast.stmt]:
    """`x = Carrier(a, b)` (a NamedTuple / dataclass of the package, positional or keyword arguments that are plain names or
    constants) whose only other uses are `x.<field>` reads: the reads become the arguments, the carrier disappears"""
    mod = ast.Module(body=body, type_ignores=[])
    assigns = {}
    for a in ast.walk(mod):
        if isinstance(a, (ast.Assign, ast.AnnAssign)) and a.value is not None:
            tg = a.targets if isinstance(a, ast.Assign) else [a.target]
            for t_ in tg:
                for x in ast.walk(t_):
                    if isinstance(x, ast.Name):
                        assigns.setdefault(x.id, []).append(a)
        elif isinstance(a, (ast.For, ast.AugAssign, ast.With, ast.NamedExpr)):
            for x in ast.walk(a.target if hasattr(a, "target") else a):
                if isinstance(x, ast.Name) and isinstance(x.ctx, ast.Store):
                    assigns.setdefault(x.id, []).append(a)
    order = {}

    def number(stmts):
        for st_ in stmts:
            order[id(st_)] = len(order)
            for fld in ("body", "orelse", "finalbody"):
                sub = getattr(st_, fld, None)
                if isinstance(sub, list) and sub and isinstance(sub[0], ast.stmt):
                    number(sub)
            for h in getattr(st_, "handlers", []) or []:
                number(h.body)
    number(body)
    todo = {}
    for name, asg in assigns.items():
        if len(asg) != 1 or not isinstance(asg[0], (ast.Assign, ast.AnnAssign)):
            continue
        a = asg[0]
        tg = a.targets if isinstance(a, ast.Assign) else [a.target]
        if len(tg) != 1 or not isinstance(tg[0], ast.Name) or not isinstance(a.value, ast.Call) or not isinstance(a.value.func, (ast.Name, ast.Attribute)):
            continue
        q = model.resolve_name(module, norm(a.value.func))
        c = model.classes.get(q) if q else None
        if c is None or not (c.is_dataclass or any(b.endswith("NamedTuple") for b in c.bases)):
            continue
        fields = [f.name for f in model.dataclass_fields(q) if f.init] if c.is_dataclass else list(c.annos)
        if any(isinstance(x, ast.Starred) for x in a.value.args) or any(k.arg is None for k in a.value.keywords) or len(a.value.args) > len(fields):
            continue
        mp = dict(zip(fields, a.value.args))
        mp.update({k.arg: k.value for k in a.value.keywords})
        if not all(isinstance(v, (ast.Name, ast.Constant)) for v in mp.values()):
            continue
        # the arguments must not be re-bound after the carrier is built (their later value would differ from the field's)
        if any(isinstance(v, ast.Name) and any(order.get(id(o), 10 ** 9) > order.get(id(a), -1) for o in assigns.get(v.id, [])) for v in mp.values()):
            continue
        uses = [x for x in ast.walk(mod) if isinstance(x, ast.Name) and x.id == name and isinstance(x.ctx, ast.Load)]
        attr_uses = [x for x in ast.walk(mod) if isinstance(x, ast.Attribute) and isinstance(x.value, ast.Name) and x.value.id == name and isinstance(x.ctx, ast.Load) and x.attr in mp]
        if not uses or len(uses) != len(attr_uses):
            continue
        todo[name] = (a, mp)
    if not todo:
        return body

    class T(ast.NodeTransformer):
        def visit_Attribute(self, n: ast.Attribute):
            if isinstance(n.value, ast.Name) and n.value.id in todo and isinstance(n.ctx, ast.Load) and n.attr in todo[n.value.id][1]:
                return ast.copy_location(copy.deepcopy(todo[n.value.id][1][n.attr]), n)
            return self.generic_visit(n)

        def visit_Assign(self, n: ast.Assign):
            if any(n is a for a, _ in todo.values()):
                return None
            return self.generic_visit(n)

        def visit_AnnAssign(self, n: ast.AnnAssign):
            if any(n is a for a, _ in todo.values()):
                return None
            return self.generic_visit(n)
    mod = T().visit(mod)
    ast.fix_missing_locations(mod)
    return mod.body


def inline_reader_helpers(model: Model, fi: FuncInfo, normalise) -> List[ast.stmt]:
    """the body of fi with every inlinable reader helper expanded (a deep copy; the model's AST is not touched)"""
    inl = Inliner(model, normalise, fi.cls)
    body = copy.deepcopy(list(fi.node.body))
    out = inl.block(body, fi.module, [fi.qualname, fi.qualname])
    return resolve_discriminators(scalar_replace(model, fi.module, out))


def resolve_discriminators(body: List[ast.stmt]) -> List[ast.stmt]:
    """Inside a loop body:   X = None ; if <T>: X = <E>     with X not bound again in that body
    makes X a discriminator: `X == c` means `<T> and <E> == c`, `X is None` means `not <T>`.  The later tests on X are rewritten
    that way and the two statements go, so a dispatch on a derived "choice" variable reads like a dispatch on the tag itself."""
    def rewrite_block(stmts: List[ast.stmt]) -> List[ast.stmt]:
        out = list(stmts)
        # X = <E> if <T> else None   is the one-statement spelling of   X = None ; if <T>: X = <E>
        expanded: List[ast.stmt] = []
        for s_ in out:
            if isinstance(s_, (ast.Assign, ast.AnnAssign)) and isinstance(s_.value, ast.IfExp) and isinstance(s_.value.orelse, ast.Constant) and s_.value.orelse.value is None:
                tg = s_.targets if isinstance(s_, ast.Assign) else [s_.target]
                if len(tg) == 1 and isinstance(tg[0], ast.Name):
                    a0 = ast.copy_location(ast.Assign(targets=[ast.Name(id=tg[0].id, ctx=ast.Store())], value=ast.Constant(value=None)), s_)
                    a1 = ast.copy_location(ast.Assign(targets=[ast.Name(id=tg[0].id, ctx=ast.Store())], value=s_.value.body), s_)
                    iff = ast.copy_location(ast.If(test=s_.value.test, body=[a1], orelse=[]), s_)
                    for x in (a0, iff):
                        ast.fix_missing_locations(x)
                    expanded += [a0, iff]
                    continue
            expanded.append(s_)
        out = expanded
        i = 0
        while i + 1 < len(out):
            a, b = out[i], out[i + 1]
            name = None
            if isinstance(a, (ast.Assign, ast.AnnAssign)) and a.value is not None and isinstance(a.value, ast.Constant) and a.value.value is None:
                tg = a.targets if isinstance(a, ast.Assign) else [a.target]
                if len(tg) == 1 and isinstance(tg[0], ast.Name):
                    name = tg[0].id
            if name and isinstance(b, ast.If) and not b.orelse and len(b.body) == 1 and isinstance(b.body[0], ast.Assign) and len(b.body[0].targets) == 1 and \
                    isinstance(b.body[0].targets[0], ast.Name) and b.body[0].targets[0].id == name:
                T, E = b.test, b.body[0].value
                rest = out[i + 2:]
                pure = not any(isinstance(x, (ast.Call, ast.NamedExpr, ast.Await)) for x in ast.walk(T)) and not any(isinstance(x, (ast.Call, ast.NamedExpr, ast.Await)) for x in ast.walk(E))
                stored = any(isinstance(x, ast.Name) and x.id == name and isinstance(x.ctx, (ast.Store, ast.Del)) for s_ in rest for x in ast.walk(s_))
                used_names = {x.id for x in ast.walk(T) if isinstance(x, ast.Name)} | {x.id for x in ast.walk(E) if isinstance(x, ast.Name)}
                roots_stored = any(isinstance(x, ast.Name) and x.id in used_names and isinstance(x.ctx, (ast.Store, ast.Del)) for s_ in rest for x in ast.walk(s_))
                # every use of X must be a comparison the rewrite understands
                loads = [x for s_ in rest for x in ast.walk(s_) if isinstance(x, ast.Name) and x.id == name and isinstance(x.ctx, ast.Load)]
                cmps = [x for s_ in rest for x in ast.walk(s_) if isinstance(x, ast.Compare) and len(x.ops) == 1 and isinstance(x.left, ast.Name) and x.left.id == name
                        and isinstance(x.ops[0], (ast.Eq, ast.NotEq, ast.Is, ast.IsNot, ast.In, ast.NotIn))]
                if pure and not stored and not roots_stored and loads and len(loads) == len(cmps):
                    class R(ast.NodeTransformer):
                        def visit_Compare(self, n: ast.Compare):
                            if not any(n is c for c in cmps):
                                return self.generic_visit(n)
                            op, rhs = n.ops[0], n.comparators[0]
                            t_ = copy.deepcopy(T)
                            if isinstance(rhs, ast.Constant) and rhs.value is None and isinstance(op, (ast.Is, ast.Eq)):
                                new = ast.UnaryOp(op=ast.Not(), operand=t_)
                            elif isinstance(rhs, ast.Constant) and rhs.value is None and isinstance(op, (ast.IsNot, ast.NotEq)):
                                new = t_
                            elif isinstance(op, (ast.Eq, ast.In)):
                                new = ast.BoolOp(op=ast.And(), values=[t_, ast.Compare(left=copy.deepcopy(E), ops=[op], comparators=[rhs])])
                            elif isinstance(op, (ast.NotEq, ast.NotIn)):
                                new = ast.BoolOp(op=ast.Or(), values=[ast.UnaryOp(op=ast.Not(), operand=t_), ast.Compare(left=copy.deepcopy(E), ops=[op], comparators=[rhs])])
                            else:
                                return n
                            ast.copy_location(new, n)
                            ast.fix_missing_locations(new)
                            return new
                    rest = [R().visit(s_) for s_ in rest]
                    out = out[:i] + rest
                    continue
            i += 1
        return out

    class L(ast.NodeTransformer):
        def visit_While(self, n: ast.While):
            n = self.generic_visit(n)
            n.body = rewrite_block(n.body)
            return n

        def visit_For(self, n: ast.For):
            n = self.generic_visit(n)
            n.body = rewrite_block(n.body)
            return n
    mod = ast.Module(body=body, type_ignores=[])
    mod = L().visit(mod)
    ast.fix_missing_locations(mod)
    return mod.body
