"""Comparers on the extracted TLV grammars: writer vs reader (C01), writer vs RFC table (C03), reader leniency (C04)."""
from __future__ import annotations

import ast
from dataclasses import dataclass
from typing import Any, Dict, List, Optional, Tuple

from .fold import EnumConst, Folder, TagConst, Unfoldable
from .report import Finding, Run
from .srcmodel import AnalysisError, FuncInfo, Model, norm, walk_no_nested
from .tlv import ASN1, ReaderExtractor, ReaderResult, RNode, Src, TagSpec, WNode, WriterExtractor

MSG = "sansldap._messages"
FLT = "sansldap._filter"
AUTH = "sansldap._authentication"
CTL = "sansldap._controls"


class Extracted:
    """All writer and reader grammars of the codec, extracted once per run."""

    def __init__(self, model: Model):
        self.m = model
        self.w = WriterExtractor(model)
        self.r = ReaderExtractor(model)
        self.folder = Folder(model)
        self.msg_classes = model.subclasses(f"{MSG}.LDAPMessage", strict=True)
        self.filter_classes = model.subclasses(f"{FLT}.LDAPFilter", strict=True)
        self.cred_classes = model.subclasses(f"{AUTH}.AuthenticationCredential", strict=True)
        self.ctl_classes = [c for c in model.subclasses(f"{CTL}.LDAPControl") if not model.classes[c].name.startswith("_")]
        if len(self.msg_classes) < 9 or len(self.filter_classes) < 10 or len(self.cred_classes) < 2 or len(self.ctl_classes) < 4:
            raise AnalysisError("codec class census below the confirmed floor")
        # protocolOp dispatch table
        self.dispatch: Dict[int, FuncInfo] = {}
        self.dispatch_cls: Dict[int, str] = {}
        m = model.modules[MSG]
        sts = m.globals_.get("PROTOCOL_PACKER", [])
        if len(sts) != 1 or not isinstance(getattr(sts[0], "value", None), ast.Dict):
            raise AnalysisError("PROTOCOL_PACKER is not a single dict literal")
        for k, v in zip(sts[0].value.keys, sts[0].value.values):
            try:
                num = self.folder.fold(k, MSG)
            except Unfoldable as ex:
                raise AnalysisError(f"PROTOCOL_PACKER key `{norm(k)}` does not fold ({ex})")
            if isinstance(v, ast.Name):
                q = model.resolve_name(MSG, v.id)
                if q not in model.functions:
                    raise AnalysisError(f"PROTOCOL_PACKER value `{v.id}` is not a function")
                self.dispatch[num] = model.functions[q]
            elif isinstance(v, ast.Lambda):
                fi = FuncInfo(f"{MSG}.<lambda:{num}>", "<lambda>", MSG, None, v, [])
                self.dispatch[num] = fi
            else:
                raise AnalysisError("PROTOCOL_PACKER value is neither a function nor a lambda")
        self.wgram: Dict[str, List[WNode]] = {}
        self.rres: Dict[str, ReaderResult] = {}
        self.errors: Dict[str, str] = {}
        for c in self.msg_classes + self.filter_classes + self.cred_classes + self.ctl_classes:
            self.wgram[c] = self.w.grammar(c, "pack")
        self.envelope = self.r.extract(model.func(f"{MSG}.unpack_ldap_message"))
        for c in self.msg_classes:
            num = self.class_tag_number(c)
            fi = self.dispatch.get(num)
            if fi is None:
                continue
            if isinstance(fi.node, ast.Lambda):
                self.rres[c] = self.lambda_result(fi)
            else:
                try:
                    self.rres[c] = self.r.extract(fi)
                except AnalysisError as e:
                    self.errors[c] = str(e)
        for c in self.filter_classes + self.cred_classes:
            fi = model.classes[c].methods.get("unpack")
            if fi is not None:
                try:
                    self.rres[c] = self.r.extract(fi, c)
                except AnalysisError as e:
                    self.errors[c] = str(e)
        self.ctl_generic = self.r.extract(model.func(f"{CTL}.unpack_ldap_control"))
        self._control_envelope()
        for c in self.ctl_classes:
            fi = model.find_method(c, "unpack")
            if fi is not None:
                try:
                    self.rres[c] = self.r.extract(fi, c)
                except AnalysisError as e:
                    self.errors[c] = str(e)

    def _control_envelope(self) -> None:
        """The Control SEQUENCE is opened either by the control decoder itself or by every caller just before it hands the content
        reader over (a contract moved across the call): both are the same grammar.  In the second form the envelope found at each
        call site is moved into the nonterminal, which is where the writer side (`LDAPControl.pack`) has it."""
        top = self.ctl_generic.nodes
        if len(top) == 1 and top[0].kind == "cons":
            return
        wrapper = None
        bare = 0

        def walk(lst):
            nonlocal wrapper, bare
            for i, n in enumerate(lst):
                if n.kind == "cons" and len(n.children) == 1 and n.children[0].kind == "ref" and n.children[0].nt == f"{CTL}.LDAPControl" and not n.alts:
                    if wrapper is None:
                        wrapper = n
                    elif (wrapper.ukind, str(wrapper.spec)) != (n.ukind, str(n.spec)):
                        raise AnalysisError("the Control envelope is read with different tags at different call sites of the control decoder")
                    lst[i] = n.children[0]
                    continue
                if n.kind == "ref" and n.nt == f"{CTL}.LDAPControl":
                    bare += 1
                walk(n.children)
                for _sp, cs in n.alts:
                    walk(cs)
        seen = set()
        for res in [self.envelope] + list(self.rres.values()):
            stack = [res]
            while stack:
                r_ = stack.pop()
                if id(r_) in seen:
                    continue
                seen.add(id(r_))
                walk(r_.nodes)
                stack.extend(r_.inlines.values())
        if wrapper is None and bare == 0:
            return
        if bare:
            raise AnalysisError("the control decoder does not open the Control SEQUENCE and some caller does not either: the Control grammar differs between call sites")
        import dataclasses as _dc
        self.ctl_generic.nodes = [_dc.replace(wrapper, children=list(top), var="", appended_to="")]

    def class_tag_number(self, c: str) -> int:
        cc = self.m.class_const(c, "tag_number")
        if cc is None:
            raise AnalysisError(f"{c} has no tag_number")
        owner, expr = cc
        if isinstance(expr, ast.Call):
            for kw in expr.keywords:
                if kw.arg == "default":
                    return self.folder.fold(kw.value, self.m.classes[owner].module)
        return self.folder.fold(expr, self.m.classes[owner].module)

    def lambda_result(self, fi: FuncInfo) -> ReaderResult:
        res = ReaderResult(fi.qualname, [], "", {}, {}, {})
        body = fi.node.body
        if isinstance(body, ast.Call):
            q = self.m.resolve_name(MSG, norm(body.func))
            if q in self.m.classes:
                res.cls = q
                params = [a.arg for a in fi.node.args.args]
                for k in body.keywords:
                    if isinstance(k.value, ast.Name):
                        res.field_of_var[k.value.id] = k.arg
                res.lambda_params = params
        return res


# ---------------------------------------------------------------------------------- C01: writer vs reader
def default_kind(e: Optional[ast.expr]) -> str:
    if e is None:
        return "<none>"
    if isinstance(e, ast.Constant):
        if e.value is None:
            return "None"
        if e.value is False:
            return "False"
        if isinstance(e.value, bytes) and not e.value:
            return "b''"
        return repr(e.value)
    if isinstance(e, ast.List) and not e.elts:
        return "[]"
    return norm(e)


class Aligner:
    def __init__(self, ex: Extracted, run: Run, rule_prefix: str = "W"):
        self.ex = ex
        self.run = run
        self.findings: List[Tuple[str, str, str, int, str]] = []     # rule, construct, key, line, message

    def fail(self, rule: str, cls: str, key: str, msg: str, node) -> None:
        self.findings.append((rule, cls, key, getattr(node, "line", 0), msg, getattr(node, "func", "")))

    def align(self, cls: str, wnodes: List[WNode], rnodes: List[RNode], res: ReaderResult, path_prefix: str = "") -> None:
        """Walk the writer grammar; every emitted component must be accepted by the reader at that point."""
        cursor = 0
        optsets = [n for n in rnodes if n.kind == "optset"]
        mand = [n for n in rnodes if n.kind not in ("optset",)]
        mi = 0
        for w in wnodes:
            if w.kind in ("prim", "cons", "ref", "encaps"):
                # positional first, otherwise a dispatch alternative (reader more lenient)
                r = mand[mi] if mi < len(mand) else None
                if r is not None and self.compatible(w, r):
                    mi += 1
                    self.compare(cls, w, r, res, None)
                    continue
                alt = self.find_alt(w, optsets)
                if alt is not None:
                    self.compare_alt(cls, w, alt, res, None)
                    continue
                self.run.ob("W1-component-accepted", False)
                self.fail("W1-component-accepted", cls, f"{w.ukind or w.kind}{w.tag}<-{w.src}", f"{short(cls)}: the writer emits {w.brief()[:90]} but the reader has no matching component at that position "
                          f"(next reader component: {r.brief()[:80] if r else 'none'})", w)
            elif w.kind == "opt":
                for ch in w.children:
                    alt = self.find_alt(ch, optsets)
                    if alt is not None:
                        self.compare_alt(cls, ch, alt, res, w)
                        continue
                    # optional-by-position (unchecked optional)
                    r = mand[mi] if mi < len(mand) else None
                    if r is not None and r.kind == "unchecked" and r.children and self.compatible(ch, r.children[0]):
                        mi += 1
                        self.compare(cls, ch, r.children[0], res, w)
                        continue
                    self.run.ob("W1-component-accepted", False)
                    self.fail("W1-component-accepted", cls, f"opt {ch.ukind}{ch.tag}<-{ch.src}", f"{short(cls)}: the writer can emit the optional {ch.brief()[:80]} but no tag-dispatched alternative of the reader accepts it", ch)
            elif w.kind == "rep":
                r = mand[mi] if mi < len(mand) else None
                if r is not None and r.kind == "rep":
                    mi += 1
                    self.align(cls, w.children, r.children, res)
                    continue
                # repeated element handled by a dispatch loop (substrings any)
                ok = False
                for ch in w.children:
                    alt = self.find_alt(ch, [o for o in optsets if o.loop])
                    if alt is not None:
                        self.compare_alt(cls, ch, alt, res, None, repeated=True)
                        ok = True
                if not ok:
                    self.run.ob("W1-component-accepted", False)
                    self.fail("W1-component-accepted", cls, f"rep {w.src}", f"{short(cls)}: the writer emits a repeated component for `{w.src.path if w.src else ''}` that the reader does not loop over", w)
        # reader mandatory components the writer never produces
        for r in mand[mi:]:
            if r.kind in ("prim", "cons", "ref"):
                self.run.ob("W2-reader-expects-only-what-is-written", False)
                self.fail("W2-reader-expects-only-what-is-written", cls, f"{r.ukind}{r.spec}->{r.var}", f"{short(cls)}: the reader requires {r.brief()[:80]} which the writer never emits", r)

    def compatible(self, w: WNode, r: RNode) -> bool:
        if w.kind == "ref":
            return r.kind == "ref"
        if w.kind == "cons":
            return r.kind == "cons"
        if w.kind in ("prim", "encaps"):
            return r.kind == "prim"
        return False

    def find_alt(self, w: WNode, optsets: List[RNode]):
        if w.tag is None:
            return None
        for o in optsets:
            for spec, nodes in o.alts:
                if spec.accepts(w.tag) and nodes:
                    return (o, spec, nodes)
        return None

    def compare_alt(self, cls, w: WNode, alt, res: ReaderResult, opt: Optional[WNode], repeated: bool = False) -> None:
        o, spec, nodes = alt
        r = nodes[0]
        self.compare(cls, w, r, res, opt, via_dispatch=True)

    def compare(self, cls: str, w: WNode, r: RNode, res: ReaderResult, opt: Optional[WNode], via_dispatch: bool = False) -> None:
        run = self.run
        label = {"class": short(cls), "writer": w.brief()[:100], "reader": r.brief()[:100]}
        if w.kind == "ref":
            ok = r.kind == "ref" and (r.nt == w.nt or r.nt.startswith("<dispatch"))
            run.ob("W3-same-nonterminal", ok, label)
            if not ok:
                self.fail("W3-same-nonterminal", cls, f"{short(w.nt)} vs {short(r.nt)}", f"{short(cls)}: writer delegates to {short(w.nt)} but the reader to {short(r.nt)}", w)
            self.field_check(cls, w, r, res)
            return
        # tag
        ok = r.spec is not None and w.tag is not None and r.spec.accepts(w.tag)
        run.ob("W4-tag-accepted", ok, label)
        if not ok:
            self.fail("W4-tag-accepted", cls, f"{w.ukind}{w.tag} vs {r.spec}", f"{short(cls)}: the writer emits {w.ukind} with tag {w.tag} (from {w.src}) but the reader at that point accepts {r.spec}", w)
        # kind
        wk = "octet_string" if w.kind == "encaps" else w.ukind
        ok = wk == r.ukind
        if w.kind == "cons" and r.kind == "cons" and w.tag is not None and w.tag.cls_name != "UNIVERSAL":
            ok = True       # an explicitly tagged constructed value: SEQUENCE vs SET helper makes no difference on the wire
        run.ob("W5-same-universal-kind", ok, label)
        if not ok:
            self.fail("W5-same-universal-kind", cls, f"{wk} vs {r.ukind}", f"{short(cls)}: `{w.src.path if w.src else ''}` is written as {wk} but read as {r.ukind}", w)
        if w.kind == "cons":
            self.align(cls, w.children, r.children, res)
            if opt is not None:
                self.default_check(cls, opt, r, res, first_leaf(r))
            return
        if w.kind == "encaps":
            return
        self.field_check(cls, w, r, res)
        # conversion
        rconv = r.conv
        if rconv == "identity":
            rconv = res.conv_of_var.get(r.var, "identity")
            for sub in res.inlines.values():
                if r.func == sub.func:
                    rconv = sub.conv_of_var.get(r.var, rconv)
        wconv = w.src.conv if w.src else "identity"
        ok = (wconv == rconv) or (wconv == "enum" and r.ukind == "enumerated" and rconv == "identity")
        if ok and (w.modes or r.modes) and w.modes != r.modes:
            # a mode switch of the primitive codec used on one side only (read_integer(signed=False) against a plain write_integer)
            ok = False
            wconv, rconv = f"{wconv}({w.modes})", f"{rconv}({r.modes})"
        if ok and wconv == "identity" and r.ukind == "enumerated" and r.enum_cls and self.valueless_pseudo_members(r.enum_cls):
            # the decoder can produce a member that _missing_ allocates with int.__new__(cls) - as an int it is 0; only its
            # .value carries the number that was received, so writing the member itself does not write that number back
            ok = False
            wconv, rconv = "identity (the member as an int)", f"{short(r.enum_cls)}(n), whose _missing_ members have the int value 0"
        run.ob("W6-inverse-conversion", ok, dict(label, writer_conv=wconv, reader_conv=rconv))
        if not ok:
            self.fail("W6-inverse-conversion", cls, f"{w.src.path if w.src else ''}: {wconv} vs {rconv}", f"{short(cls)}: `{w.src.path if w.src else ''}` is written with conversion {wconv} but read with {rconv}", w)
        # enum class
        if wconv == "enum" and r.enum_cls:
            fpath = w.src.path
            ann = self.field_annotation(cls, fpath)
            ok = ann is None or short(r.enum_cls) in ann
            run.ob("W7-enum-class", ok, dict(label, annotation=ann, reader_enum=short(r.enum_cls)))
            if not ok:
                self.fail("W7-enum-class", cls, f"{fpath}: {ann} vs {short(r.enum_cls)}", f"{short(cls)}: `{fpath}` is annotated {ann} but read as {short(r.enum_cls)}", r)
        if opt is not None:
            self.default_check(cls, opt, r, res, r)

    def valueless_pseudo_members(self, enum_q: str) -> bool:
        m = self.ex.m
        if enum_q not in m.classes:
            return False
        ms = m.find_method(enum_q, "_missing_")
        if ms is None:
            return False
        return any(isinstance(c, ast.Call) and norm(c.func) == "int.__new__" and len(c.args) == 1 and not c.keywords for c in ast.walk(ms.node))

    def field_annotation(self, cls: str, fpath: str) -> Optional[str]:
        cur = cls
        ann = None
        for part in fpath.split("."):
            fs = {f.name: f for f in self.ex.m.dataclass_fields(cur)} if cur in self.ex.m.classes else {}
            if part not in fs or fs[part].annotation is None:
                return None
            ann = norm(fs[part].annotation)
            t = self.ex.w.r.strip_opt(self.ex.w.r.anno(self.ex.m.classes[fs[part].owner].module, fs[part].annotation))
            if t[0] == "list":
                t = t[1]
            cur = t[1] if t[0] == "inst" else cur
        return ann

    def field_check(self, cls: str, w: WNode, r: RNode, res: ReaderResult) -> None:
        if w.src is None or w.src.kind not in ("field", "elem"):
            return
        wf = w.src.path.replace("[]", "")
        rf = res.field_path(r)
        if rf is None and isinstance(getattr(res, "envelope_map", None), dict):
            rf = res.envelope_map.get(r.var)
        ok = rf is not None and (rf == wf or rf == wf.split(".", 1)[-1] and False)
        # list element fields: writer path "attributes.name" / reader "attributes.name"
        self.run.ob("W8-same-field", ok, {"class": short(cls), "writer_field": wf, "reader_field": rf})
        if not ok:
            self.fail("W8-same-field", cls, f"{wf} vs {rf}", f"{short(cls)}: the component written from `{wf}` is read into `{rf}`", r if rf is not None else w)

    def default_check(self, cls: str, opt: WNode, r: RNode, res: ReaderResult, leaf: Optional[RNode]) -> None:
        """omission <=> decoder default:  notnone -> default None;  truthy -> bool False / list []"""
        mode, path = opt.cond
        if leaf is None:
            return
        var = leaf.appended_to or leaf.var
        if leaf.func == res.func:
            seen = set()
            while var not in res.field_of_var and var in res.appended and var not in seen:
                seen.add(var)
                var = res.appended[var]      # the local that finally carries the value into the constructor decides the default
        d = default_expr(res, leaf, var)
        dk = default_kind(d)
        ann = self.field_annotation(cls, path.replace("[]", "")) or ""
        if mode == "notnone":
            ok = dk == "None"
            why = f"the writer omits `{path}` exactly when it is None, but the reader's value when the element is absent is {dk}"
        else:
            ok = (dk == "False" and "bool" in ann) or (dk == "[]" and ("List" in ann or "list" in ann))
            why = (f"the writer omits `{path}` whenever it is falsy (annotation {ann}), but the reader's value when the element is absent is {dk}: "
                   "a falsy value that is not the default (b'', '', 0) would not survive")
        self.run.ob("W9-omission-iff-default", ok, {"class": short(cls), "field": path, "writer_omits_when": mode, "reader_default": dk, "annotation": ann})
        if not ok:
            self.fail("W9-omission-iff-default", cls, f"{path}: {mode} vs default {dk}", f"{short(cls)}: {why}", opt)


def default_expr(res: ReaderResult, leaf: RNode, var: str, depth: int = 0):
    """Initial value of the local that receives `leaf` when the element is absent, followed through inlined helpers:
    a helper that returns the whole value hands the question to the caller's local it is assigned to."""
    if leaf.func == res.func or depth > 4:
        return res.defaults.get(var)
    for name, sub in res.inlines.items():
        if sub.func == leaf.func:
            if sub.field_of_var.get(var) == "<self>" and name in res.defaults:
                return res.defaults.get(name)
            return sub.defaults.get(var, res.defaults.get(var))
        if sub.inlines:
            d = default_expr(sub, leaf, var, depth + 1)
            if d is not None:
                return d
    return res.defaults.get(var)


def first_leaf(r: RNode) -> Optional[RNode]:
    for c in r.children:
        if c.kind in ("prim", "ref"):
            return c
        if c.kind == "rep":
            x = first_leaf(c)
            if x is not None:
                return x
        if c.kind == "cons":
            x = first_leaf(c)
            if x is not None:
                return x
    return None


def short(q: str) -> str:
    return q.split(".")[-1] if q else q


# ---------------------------------------------------------------------------------- RFC table (Appendix A of DESIGN.md)
U, A, C = "UNIVERSAL", "APPLICATION", "CONTEXT_SPECIFIC"


def P(kind, tag, fld, conv="identity"):
    return ("prim", kind, tag, fld, conv)


def S(tag, *children, kind="sequence"):
    return ("cons", kind, tag, list(children))


def O(child, mode="notnone"):
    return ("opt", mode, child)


def R(fld, child):
    return ("rep", fld, child)


def REF(nt, fld):
    return ("ref", nt, fld)


STR = "str(string_encoding)"
OCT = (U, 4, False)
LDAPRESULT = [P("enumerated", (U, 10, False), "result.result_code", "enum"), P("octet_string", OCT, "result.matched_dn", STR), P("octet_string", OCT, "result.diagnostics_message", STR),
              O(S((C, 3, True), R("result.referrals", P("octet_string", OCT, "result.referrals", STR))))]
CONTROLS = O(S((C, 0, True), R("controls", REF(f"{CTL}.LDAPControl", "controls"))), "truthy")


def envelope(op):
    return [S((U, 16, True), P("integer", (U, 2, False), "message_id"), op, CONTROLS)]


RFC_MESSAGES = {
    "BindRequest": envelope(S((A, 0, True), P("integer", (U, 2, False), "version"), P("octet_string", OCT, "name", STR), REF(f"{AUTH}.AuthenticationCredential", "authentication"))),
    "BindResponse": envelope(S((A, 1, True), *LDAPRESULT, O(P("octet_string", (C, 7, False), "server_sasl_creds")))),
    "UnbindRequest": envelope(("null", (A, 2, False))),
    "SearchRequest": envelope(S((A, 3, True), P("octet_string", OCT, "base_object", STR), P("enumerated", (U, 10, False), "scope", "enum"), P("enumerated", (U, 10, False), "deref_aliases", "enum"),
                                P("integer", (U, 2, False), "size_limit"), P("integer", (U, 2, False), "time_limit"), P("boolean", (U, 1, False), "types_only"),
                                REF(f"{FLT}.LDAPFilter", "filter"), S((U, 16, True), R("attributes", P("octet_string", OCT, "attributes", STR))))),
    "SearchResultEntry": envelope(S((A, 4, True), P("octet_string", OCT, "object_name", STR),
                                    S((U, 16, True), R("attributes", S((U, 16, True), P("octet_string", OCT, "attributes.name", STR),
                                                                       S((U, 17, True), R("attributes.values", P("octet_string", OCT, "attributes.values")), kind="set")))))),
    "SearchResultDone": envelope(S((A, 5, True), *LDAPRESULT)),
    "SearchResultReference": envelope(S((A, 19, True), R("uris", P("octet_string", OCT, "uris", STR)))),
    "ExtendedRequest": envelope(S((A, 23, True), P("octet_string", (C, 0, False), "name", STR), O(P("octet_string", (C, 1, False), "value")))),
    "ExtendedResponse": envelope(S((A, 24, True), *LDAPRESULT, O(P("octet_string", (C, 10, False), "name", STR)), O(P("octet_string", (C, 11, False), "value")))),
}


def AVA(n):
    return [S((C, n, True), P("octet_string", OCT, "attribute", STR), P("octet_string", OCT, "value"))]


RFC_FILTERS = {
    "FilterAnd": [S((C, 0, True), R("filters", REF(f"{FLT}.LDAPFilter", "filters")), kind="set")],
    "FilterOr": [S((C, 1, True), R("filters", REF(f"{FLT}.LDAPFilter", "filters")), kind="set")],
    # not [2] Filter: Filter is a CHOICE, so the context tag is explicit (constructed wrapper)
    "FilterNot": [S((C, 2, True), REF(f"{FLT}.LDAPFilter", "filter"), kind="any")],
    "FilterEquality": AVA(3), "FilterGreaterOrEqual": AVA(5), "FilterLessOrEqual": AVA(6), "FilterApproxMatch": AVA(8),
    "FilterSubstrings": [S((C, 4, True), P("octet_string", OCT, "attribute", STR),
                           S((U, 16, True), O(P("octet_string", (C, 0, False), "initial")), R("any", P("octet_string", (C, 1, False), "any")), O(P("octet_string", (C, 2, False), "final"))))],
    "FilterPresent": [P("octet_string", (C, 7, False), "attribute", STR)],
    "FilterExtensibleMatch": [S((C, 9, True), O(P("octet_string", (C, 1, False), "rule", STR)), O(P("octet_string", (C, 2, False), "attribute", STR)),
                                P("octet_string", (C, 3, False), "value"), O(P("boolean", (C, 4, False), "dn_attributes"), "truthy"))],
}
RFC_CREDS = {
    "SimpleCredential": [P("octet_string", (C, 0, False), "password", STR)],
    "SaslCredential": [S((C, 3, True), P("octet_string", OCT, "mechanism", STR), O(P("octet_string", OCT, "credentials")))],
}
RFC_CONTROL = [S((U, 16, True), P("octet_string", OCT, "control_type", STR), O(P("boolean", (U, 1, False), "critical"), "truthy"), O(("value", OCT)))]
RFC_PAGED_VALUE = [S((U, 16, True), P("integer", (U, 2, False), "size"), P("octet_string", OCT, "cookie"))]


def triple(t: Optional[TagConst]):
    return t.triple() if t is not None else None


class RfcComparer:
    def __init__(self, run: Run):
        self.run = run
        self.findings: List[tuple] = []

    def fail(self, rule, cls, key, msg, node):
        self.findings.append((rule, cls, key, getattr(node, "line", 0), msg, getattr(node, "func", "")))

    def compare(self, cls: str, wnodes: List[WNode], spec: list, ctx: str = "") -> None:
        # flatten writer opts for positional comparison
        wi = 0
        for sp in spec:
            w = wnodes[wi] if wi < len(wnodes) else None
            if w is None:
                self.run.ob("B1-rfc-component-present", False)
                self.fail("B1-rfc-component-present", cls, f"missing {sp[0]} {sp[2] if len(sp) > 2 else ''}", f"{short(cls)}{ctx}: the RFC component {describe(sp)} is never written", wnodes[-1] if wnodes else None)
                continue
            wi += 1
            self.node(cls, w, sp, ctx)
        for w in wnodes[wi:]:
            self.run.ob("B2-nothing-beyond-the-rfc", False)
            self.fail("B2-nothing-beyond-the-rfc", cls, f"extra {w.brief()[:60]}", f"{short(cls)}{ctx}: the writer emits {w.brief()[:80]} which RFC 4511 does not define at this position", w)

    def node(self, cls: str, w: WNode, sp: tuple, ctx: str) -> None:
        run = self.run
        kind = sp[0]
        label = {"class": short(cls), "writer": w.brief()[:100], "rfc": describe(sp)}
        if kind == "opt":
            mode, child = sp[1], sp[2]
            ok = w.kind == "opt" and w.cond[0] == mode
            run.ob("B3-optionality", ok, label)
            if not ok:
                self.fail("B3-optionality", cls, f"{describe(child)}: writer {w.kind}{'/' + w.cond[0] if w.kind == 'opt' else ''} vs RFC {mode}",
                          f"{short(cls)}{ctx}: {describe(child)} is {'OPTIONAL (omit iff absent)' if mode == 'notnone' else 'DEFAULT FALSE / empty (omit iff default)'} in the RFC but the writer "
                          f"{'always emits it' if w.kind != 'opt' else 'omits it when ' + w.cond[0]}", w)
            inner = w.children if w.kind == "opt" else [w]
            if child[0] == "value":
                # controlValue: any octet string (possibly an encapsulated grammar)
                c0 = inner[0] if inner else None
                ok = c0 is not None and c0.kind in ("prim", "encaps") and (c0.ukind == "octet_string") and triple(c0.tag) == child[1]
                run.ob("B4-tag", ok, label)
                if not ok:
                    self.fail("B4-tag", cls, f"controlValue {c0.brief()[:50] if c0 else None}", f"{short(cls)}: controlValue must be a primitive OCTET STRING", w)
                return
            if len(inner) != 1:
                self.fail("B1-rfc-component-present", cls, f"opt with {len(inner)} children", f"{short(cls)}{ctx}: optional group does not hold exactly {describe(child)}", w)
                return
            self.node(cls, inner[0], child, ctx)
            return
        if w.kind == "opt":
            run.ob("B3-optionality", False, label)
            self.fail("B3-optionality", cls, f"{describe(sp)}: writer optional", f"{short(cls)}{ctx}: {describe(sp)} is mandatory in the RFC but the writer omits it when `{w.cond[1]}` is {w.cond[0]}", w)
            if len(w.children) == 1:
                self.node(cls, w.children[0], sp, ctx)
            return
        if kind == "null":
            ok = w.kind == "cons" and not w.children and triple(w.tag) == sp[1]
            run.ob("B4-tag", ok, label)
            if not ok:
                got = triple(w.tag)
                self.fail("B4-tag", cls, f"{tagtxt(got)} vs {tagtxt(sp[1])}", f"{short(cls)}{ctx}: written with identifier {tagtxt(got)} but RFC 4511 defines {tagtxt(sp[1])} (NULL, primitive, empty content)", w)
            return
        if kind == "prim":
            _, ukind, tag, fld, conv = sp
            ok = w.kind == "prim"
            if ok:
                ok = triple(w.tag) == tag
                run.ob("B4-tag", ok, label)
                if not ok:
                    self.fail("B4-tag", cls, f"{fld}: {tagtxt(triple(w.tag))} vs {tagtxt(tag)}", f"{short(cls)}{ctx}: `{fld}` is written with identifier {tagtxt(triple(w.tag))} but RFC 4511 requires {tagtxt(tag)}", w)
                ok2 = w.ukind == ukind
                run.ob("B5-universal-kind", ok2, label)
                if not ok2:
                    self.fail("B5-universal-kind", cls, f"{fld}: {w.ukind} vs {ukind}", f"{short(cls)}{ctx}: `{fld}` is written as {w.ukind} but is {ukind} in the RFC", w)
                wf = (w.src.path if w.src and w.src.kind in ("field", "elem") else "").replace("[]", "")
                ok3 = wf == fld or wf.endswith("." + fld)
                run.ob("B6-field-correspondence", ok3, label)
                if not ok3:
                    self.fail("B6-field-correspondence", cls, f"{fld} <- {wf}", f"{short(cls)}{ctx}: the RFC component for `{fld}` is written from `{wf}`", w)
                wconv = w.src.conv if w.src else "identity"
                ok4 = wconv == conv
                run.ob("B7-conversion", ok4, label)
                if not ok4:
                    self.fail("B7-conversion", cls, f"{fld}: {wconv} vs {conv}", f"{short(cls)}{ctx}: `{fld}` is written with conversion {wconv}, expected {conv}", w)
            else:
                run.ob("B4-tag", False, label)
                self.fail("B4-tag", cls, f"{fld}: writer {w.kind}", f"{short(cls)}{ctx}: RFC primitive `{fld}` is written as {w.brief()[:60]}", w)
            return
        if kind == "cons":
            _, ckind, tag, children = sp
            ok = w.kind == "cons" and triple(w.tag) == tag
            run.ob("B4-tag", ok, label)
            if not ok:
                self.fail("B4-tag", cls, f"{tagtxt(triple(w.tag)) if w.tag else w.kind} vs {tagtxt(tag)}", f"{short(cls)}{ctx}: constructed component written with {tagtxt(triple(w.tag)) if w.tag else w.kind}, RFC 4511 requires {tagtxt(tag)}", w)
            if w.kind == "cons":
                self.compare(cls, w.children, children, ctx)
            return
        if kind == "rep":
            _, fld, child = sp
            ok = w.kind == "rep" and w.src is not None and (w.src.path == fld or w.src.path.endswith("." + fld) or fld.endswith(w.src.path))
            run.ob("B8-repetition", ok, label)
            if not ok:
                self.fail("B8-repetition", cls, f"rep {fld} vs {w.brief()[:50]}", f"{short(cls)}{ctx}: SEQUENCE/SET OF `{fld}` is not written as a loop over that field", w)
            if w.kind == "rep" and len(w.children) == 1:
                self.node(cls, w.children[0], child, ctx)
            return
        if kind == "ref":
            _, nt, fld = sp
            ok = w.kind == "ref" and w.nt == nt
            run.ob("B9-choice-type", ok, label)
            if not ok:
                self.fail("B9-choice-type", cls, f"{fld}: {short(w.nt) if w.kind == 'ref' else w.kind} vs {short(nt)}", f"{short(cls)}{ctx}: `{fld}` must be written by the {short(nt)} choice", w)
            return


def tagtxt(t) -> str:
    if t is None:
        return "?"
    c, n, cons = t
    return f"[{c} {n}] {'constructed' if cons else 'primitive'}"


def describe(sp) -> str:
    if sp[0] == "prim":
        return f"{sp[3]} {sp[1]} {tagtxt(sp[2])}"
    if sp[0] == "cons":
        return f"{sp[1]} {tagtxt(sp[2])}"
    if sp[0] == "opt":
        return f"OPTIONAL({describe(sp[2])})"
    if sp[0] == "rep":
        return f"OF {describe(sp[2])}"
    if sp[0] == "ref":
        return f"{short(sp[1])} for {sp[2]}"
    if sp[0] == "null":
        return f"NULL {tagtxt(sp[1])}"
    return str(sp)


_cache: Dict[int, Extracted] = {}


def extracted(model: Model) -> Extracted:
    if id(model) not in _cache:
        _cache[id(model)] = Extracted(model)
    return _cache[id(model)]


def nonconstant_tags(ex: Extracted, run: Run, rule: str) -> None:
    """A tag whose class/number are constants but whose constructed bit (or any other part) is computed from the value."""
    seen = set()
    for fq, line, txt, why, cls in ex.w.nonconst:
        if (fq, txt) in seen:
            continue
        seen.add((fq, txt))
        run.ob(rule, False, {"function": fq, "tag": txt})
        fi = ex.m.functions.get(fq)
        run.fail(Finding(rule, fq, txt[:100], f"{fq.split('sansldap.')[-1]} writes the identifier `{txt}`, part of which is computed at run time ({why}): "
                         "the same field is encoded with different identifier octets depending on its content, which neither the grammar nor the reader's tag test allows for",
                         f"{ex.m.relpath(fi.module)}:{line}" if fi else ""))
    run.ob(rule, True, {"writer_tags_not_constant": len(seen)})


def finish_with_errors(ex: Extracted, run: Run) -> None:
    """Reader functions whose shape the extractor does not know are undecided: exit 2 unless a violation was found anyway."""
    for c, msg in ex.errors.items():
        run.note(f"undecided: reader of {short(c)} not extracted: {msg}")
    if ex.errors and not run.findings:
        raise AnalysisError("reader grammar not extracted for " + ", ".join(f"{short(c)} ({m})" for c, m in ex.errors.items()))


def value_codec_is_delegated(model, cls_q: str) -> Optional[str]:
    """get_value / unpack of a control class hand the value to a codec object or function the extractor does not open (a call
    on a freshly constructed object, a callable from another module) instead of using an ASN1Writer / ASN1Reader themselves:
    the text of the call, or None"""
    import ast as _ast
    from .srcmodel import norm as _norm, walk_no_nested as _walk
    for mname, prim_cls in (("get_value", "ASN1Writer"), ("unpack", "ASN1Reader")):
        fi = model.find_method(cls_q, mname)
        if fi is None or isinstance(fi.node, _ast.Lambda):
            continue
        uses_prim = any(isinstance(x, _ast.Call) and _norm(x.func).split(".")[-1] == prim_cls for x in _walk(fi.node))
        if uses_prim:
            continue
        for x in _walk(fi.node):
            if isinstance(x, _ast.Call) and isinstance(x.func, _ast.Attribute) and isinstance(x.func.value, (_ast.Call, _ast.Name)):
                root = x.func.value.func if isinstance(x.func.value, _ast.Call) else x.func.value
                q = model.resolve_name(fi.module, _norm(root)) if isinstance(root, (_ast.Name, _ast.Attribute)) else None
                if q in model.classes and q != cls_q and not model.is_subclass(cls_q, q):
                    return f"{fi.qualname.split('sansldap.')[-1]}: {_norm(x)[:60]}"
    return None


def string_encoding_defaults(model, run, rule: str) -> None:
    """LDAPString is UTF-8 (RFC 4511 section 4.1.2): every `string_encoding` default of the option dataclasses, and the value the session
    hands to them, folds to the UTF-8 codec.  Any other default encodes DNs, attribute descriptions and diagnostic texts in
    octets that are not an LDAPString (or cannot encode them at all), for every caller that did not choose an encoding."""
    import ast as _ast
    import codecs
    from .fold import Folder, Unfoldable
    from .srcmodel import norm as _norm, walk_no_nested as _walk
    folder = Folder(model)
    n = 0
    for cq, c in sorted(model.classes.items()):
        if not c.is_dataclass:
            continue
        for f in model.dataclass_fields(cq):
            if f.name != "string_encoding" or f.owner != cq:
                continue
            n += 1
            val = None
            if f.default is not None:
                try:
                    val = folder.fold(f.default, c.module)
                except Unfoldable:
                    val = None
            ok = isinstance(val, str)
            if ok:
                try:
                    ok = codecs.lookup(val).name == "utf-8"
                except LookupError:
                    ok = False
            run.ob(rule, ok, {"class": cq.split(".")[-1], "default": val})
            if not ok:
                run.fail(Finding(rule, cq, f"string_encoding={val!r}", f"{cq.split('sansldap.')[-1]}.string_encoding defaults to {val!r}: text packed with default options is not UTF-8 as LDAPString "
                                 "requires, and text outside that codec cannot be packed at all", model.loc(c.module, c.node)))
    # the session's own choice
    for fq, fi in sorted(model.functions.items()):
        if fi.module != "sansldap._session" or isinstance(fi.node, _ast.Lambda):
            continue
        for x in _walk(fi.node):
            if isinstance(x, _ast.Call):
                for k in x.keywords:
                    if k.arg == "string_encoding":
                        v = k.value
                        if isinstance(v, _ast.Name):
                            bs = [a.value for a in _walk(fi.node) if isinstance(a, _ast.Assign) and any(isinstance(t_, _ast.Name) and t_.id == v.id for t_ in a.targets)]
                            v = bs[0] if len(bs) == 1 else v
                        try:
                            val = folder.fold(v, fi.module)
                        except Unfoldable:
                            continue
                        n += 1
                        ok = isinstance(val, str)
                        if ok:
                            try:
                                ok = codecs.lookup(val).name == "utf-8"
                            except LookupError:
                                ok = False
                        run.ob(rule, ok, {"function": fq.split("sansldap.")[-1], "string_encoding": val})
                        if not ok:
                            run.fail(Finding(rule, fq, f"string_encoding={val!r}", f"{fq.split('sansldap.')[-1]} configures string_encoding={val!r}: the session's messages are not LDAPString (UTF-8)", model.loc(fi.module, x)))
    run.floor("string_encoding defaults", n, 4)


def dispatch_entries_are_owned(model: Model, run, rule: str, consequence: str) -> int:
    """Every entry of the protocolOp dispatch table belongs to the message class with that tag number: the key is the
    `tag_number` of exactly one LDAPMessage class.  An entry under a number no class owns decodes an operation this library
    does not implement *as* one that it does (a ModifyResponse read by the SearchResultDone decoder is, to the session, the
    end of a search) instead of refusing it as an unknown protocolOp."""
    from .report import Finding
    ex = extracted(model)
    owned = {}
    for c in ex.msg_classes:
        try:
            owned.setdefault(ex.class_tag_number(c), []).append(c)
        except AnalysisError:
            continue
    n = 0
    def as_int(v):
        return getattr(v, "value", v)
    owned = {as_int(k): v for k, v in owned.items()}
    for num, fi in sorted(((as_int(k), f) for k, f in ex.dispatch.items()), key=lambda kv: str(kv[0])):
        n += 1
        ok = num in owned and len(owned[num]) == 1
        run.ob(rule, ok, {"protocolOp": num, "decoder": fi.name, "class": short(owned[num][0]) if ok else None})
        if not ok:
            run.fail(Finding(rule, f"{MSG}.PROTOCOL_PACKER", f"{num} -> {fi.name}",
                             f"PROTOCOL_PACKER[{num}] hands protocolOp {num} to {fi.name}, but " +
                             ("no message class has that tag number" if num not in owned else f"{len(owned[num])} classes share it") + f": {consequence}",
                             model.loc(MSG, model.modules[MSG].globals_["PROTOCOL_PACKER"][0])))
    return n
