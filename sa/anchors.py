"""Discovery of private helpers through the call graph from public API names.

Public anchors (stable by contract): ASN1Reader / ASN1Writer and their methods, LDAPFilter.from_string,
the description classes' __str__ / from_string, LDAPSession.receive ... Everything private is found
from those, so that renaming a private helper never detaches a rule."""
from __future__ import annotations

import ast
from typing import Dict, List, Optional, Set

from .srcmodel import AnalysisError, FuncInfo, Model, norm, walk_no_nested

ASN1 = "sansldap.asn1"
FILTER = "sansldap._filter"
SCHEMA = "sansldap.schema"


def module_callees(model: Model, fi: FuncInfo, module: Optional[str] = None) -> List[FuncInfo]:
    """Module-level functions of `module` (default: fi's own) called directly by fi, in source order."""
    module = module or fi.module
    out: List[FuncInfo] = []
    for n in ast.walk(fi.node):
        # any reference counts: a direct call, a function handed to another callable
        # (`self._read_and_advance(_read_asn1_boolean, ...)`) or bound to a local alias before being called
        names: List[str] = [n.id] if isinstance(n, ast.Name) and isinstance(n.ctx, ast.Load) else []
        for nm in names:
            q = model.resolve_name(fi.module, nm)
            if q in model.functions and model.functions[q].module == module and model.functions[q].cls is None and model.functions[q] not in out:
                out.append(model.functions[q])
    return out


def reachable(model: Model, start: FuncInfo, module: Optional[str] = None) -> List[FuncInfo]:
    module = module or start.module
    seen: Dict[str, FuncInfo] = {start.qualname: start}
    todo = [start]
    while todo:
        f = todo.pop()
        nxt = list(module_callees(model, f, module))
        # a private class of the module that f instantiates or names: its methods run on f's behalf
        for n in ast.walk(f.node):
            if isinstance(n, ast.Name) and isinstance(n.ctx, ast.Load) and n.id.startswith("_"):
                q = model.resolve_name(f.module, n.id)
                ci = model.classes.get(q) if q else None
                if ci is not None and ci.module == module:
                    nxt.extend(ci.methods.values())
        # methods the function calls on its own object
        if f.cls is not None:
            for n in ast.walk(f.node):
                if isinstance(n, ast.Attribute) and isinstance(n.value, ast.Name) and n.value.id in ("self", "cls") and isinstance(n.ctx, ast.Load):
                    for k in model.subclasses(f.cls) if f.cls in model.classes else [f.cls]:
                        mt = model.find_method(k, n.attr)
                        if mt is not None and mt.module == module and not isinstance(mt.node, ast.Lambda):
                            nxt.append(mt)
        for c in nxt:
            if c.qualname not in seen:
                seen[c.qualname] = c
                todo.append(c)
    return list(seen.values())


class Asn1Anchors:
    def __init__(self, model: Model):
        self.m = model
        rd = model.cls(f"{ASN1}.ASN1Reader")
        wr = model.cls(f"{ASN1}.ASN1Writer")
        peek = rd.methods.get("peek_header")
        if peek is None:
            raise AnalysisError("ASN1Reader.peek_header not found")
        hs = module_callees(model, peek)
        if len(hs) != 1:
            raise AnalysisError(f"ASN1Reader.peek_header calls {len(hs)} module functions, expected the header routine")
        self.header = hs[0]
        self.reader_helper: Dict[str, FuncInfo] = {}

        def first_module_callee(fi: FuncInfo, seen=()) -> Optional[FuncInfo]:
            """the module-level function a read_* method hands the view to, directly or through one private method of the class"""
            cs = module_callees(model, fi)
            if len(cs) == 1:
                return cs[0]
            if cs:
                return None
            for n in ast.walk(fi.node):
                if isinstance(n, ast.Call) and isinstance(n.func, ast.Attribute) and isinstance(n.func.value, ast.Name) and n.func.value.id == "self" \
                        and n.func.attr in rd.methods and n.func.attr not in seen and n.func.attr != fi.name:
                    r = first_module_callee(rd.methods[n.func.attr], seen + (fi.name,))
                    if r is not None:
                        return r
            return None
        for name, fi in rd.methods.items():
            if name.startswith("read_"):
                h = first_module_callee(fi)
                if h is not None:
                    self.reader_helper[name] = h
        if len(self.reader_helper) < 6:
            raise AnalysisError("fewer than 6 ASN1Reader.read_* methods delegate to a module-level helper")
        # peek_header may reach the header routine through a thin wrapper of its own (a cached variant, a slicing shim): the header
        # routine is the function on that chain which the read helpers reach as well
        common: Optional[Set[str]] = None
        for name, h in self.reader_helper.items():
            r_ = {f.qualname for f in reachable(model, h)}
            common = r_ if common is None else common & r_
        chain = [self.header]
        while chain[-1].qualname not in (common or set()) and len(chain) < 4:
            nxt = module_callees(model, chain[-1])
            if len(nxt) != 1 or nxt[0] in chain:
                break
            chain.append(nxt[0])
        if chain[-1].qualname in (common or set()):
            self.peek_chain = chain[:-1]          # what peek_header goes through before the header routine
            self.header = chain[-1]
        else:
            self.peek_chain = []
        # the validating helper: reached from every read helper and calls the header routine
        cands: Optional[Set[str]] = None
        for name, h in self.reader_helper.items():
            r = {f.qualname for f in reachable(model, h) if self.header in module_callees(model, f) and f is not self.header}
            cands = r if cands is None else cands & r
        if not cands or len(cands) != 1:
            raise AnalysisError(f"validating helper not identified (candidates: {sorted(cands or [])})")
        self.validate = model.functions[cands.pop()]
        # the header routine with the private helpers it is split into; which of them produce the tag number and which
        # the length is read off the ASN1Header(...) construction (dataflow), never off a name
        self.header_family = reachable(model, self.header)
        # the "not all of the value has arrived" signal: the package exception class the header routine raises, with the
        # package classes above and below it (an `except` naming any of them intercepts some of these signals)
        from collections import Counter
        raised = Counter()
        for f in self.header_family:
            for r_ in walk_no_nested(f.node):
                if isinstance(r_, ast.Raise) and r_.exc is not None:
                    q = model.resolve_name(f.module, norm(r_.exc.func if isinstance(r_.exc, ast.Call) else r_.exc))
                    if q in model.classes:
                        raised[q] += 1
        if not raised:
            raise AnalysisError("the header routine raises no package exception class for exhausted input")
        self.incomplete = raised.most_common(1)[0][0]
        fam = {self.incomplete}
        fam |= {b for b in model.classes[self.incomplete].mro if b in model.classes}
        for b in list(fam):
            fam |= set(model.subclasses(b))
        self.incomplete_family: Set[str] = fam
        self.number_readers = self._producers("tag_number")
        self.length_readers = self._producers("length")
        self.octet_number_reader = self.number_readers[0] if len(self.number_readers) == 1 else None
        # writer side
        ex = wr.methods.get("__exit__")
        if ex is None:
            raise AnalysisError("ASN1Writer.__exit__ not found")
        self.exit_entry = ex
        ps = module_callees(model, ex)
        for _hop in range(2):
            if ps:
                break
            # __exit__ is a thin wrapper around another method of the writer (close()): that method is the flush
            inner = [wr.methods[n.func.attr] for n in ast.walk(ex.node) if isinstance(n, ast.Call) and isinstance(n.func, ast.Attribute)
                     and isinstance(n.func.value, ast.Name) and n.func.value.id == "self" and n.func.attr in wr.methods]
            if len(inner) != 1:
                break
            ex = inner[0]
            ps = module_callees(model, ex)
        if len(ps) > 1:
            # several helpers: the packing routine is the one whose result is handed to the parent's buffer
            flushed: List[FuncInfo] = []
            binds = {t_.id: a.value for a in ast.walk(ex.node) if isinstance(a, ast.Assign) for t_ in a.targets if isinstance(t_, ast.Name)}
            for c in ast.walk(ex.node):
                if isinstance(c, ast.Call) and isinstance(c.func, ast.Attribute) and c.func.attr == "extend" and c.args:
                    v = c.args[0]
                    v = binds.get(v.id, v) if isinstance(v, ast.Name) else v
                    if isinstance(v, ast.Call) and isinstance(v.func, ast.Name):
                        q = model.resolve_name(ex.module, v.func.id)
                        if q in model.functions and model.functions[q] in ps and model.functions[q] not in flushed:
                            flushed.append(model.functions[q])
            ps = flushed
        if len(ps) != 1:
            raise AnalysisError("ASN1Writer.__exit__ does not hand the result of exactly one TLV packing routine to the parent writer")
        self.packer_entry = ps[0]          # what __exit__ calls (may be a thin wrapper that takes the tag as one value)
        core = ps[0]
        for _ in range(3):
            anns = [norm(a.annotation) if a.annotation is not None else "" for a in core.node.args.args]
            if any(x.endswith("TagClass") for x in anns):
                break
            nxt = [f for f in module_callees(model, core) if any((norm(a.annotation) if a.annotation is not None else "").endswith("TagClass") for a in f.node.args.args)]
            if len(nxt) != 1:
                break
            core = nxt[0]
        self.packer = core                 # the routine that builds identifier and length octets from class / constructed / number
        self.exit_method = ex
        self.packer_family = reachable(model, self.packer)
        self.number_writers = self._number_consumers()
        self.octet_number_writer = self.number_writers[-1] if self.number_writers else None
        self.writer_helper: Dict[str, FuncInfo] = {}
        for name, fi in wr.methods.items():
            if name.startswith("write_"):
                cs = module_callees(model, fi)
                if len(cs) == 1:
                    self.writer_helper[name] = cs[0]
        if len(self.writer_helper) < 4:
            raise AnalysisError("fewer than 4 ASN1Writer.write_* methods delegate to a module-level helper")

    def _producers(self, what: str) -> List[FuncInfo]:
        """Module functions whose result flows into the `what` component of the ASN1Header built by the header routine."""
        m = self.m
        out: List[FuncInfo] = []

        def defs_from_calls(fi: FuncInfo, name: str, depth: int = 0) -> None:
            for n in walk_no_nested(fi.node):
                if isinstance(n, ast.Assign) and isinstance(n.value, ast.Call) and isinstance(n.value.func, ast.Name):
                    tgts = [x.id for t in n.targets for x in ast.walk(t) if isinstance(x, ast.Name)]
                    if name in tgts:
                        q = m.resolve_name(fi.module, n.value.func.id)
                        f2 = m.functions.get(q) if q else None
                        if f2 is not None and f2.module == ASN1 and f2.cls is None and f2 not in out:
                            out.append(f2)
                            if depth < 3:
                                # a helper that merely forwards to another helper
                                for r in walk_no_nested(f2.node):
                                    if isinstance(r, ast.Return) and isinstance(r.value, ast.Call) and isinstance(r.value.func, ast.Name):
                                        q3 = m.resolve_name(f2.module, r.value.func.id)
                                        f3 = m.functions.get(q3) if q3 else None
                                        if f3 is not None and f3.module == ASN1 and f3.cls is None and f3 not in out:
                                            out.append(f3)
        for n in walk_no_nested(self.header.node):
            if isinstance(n, ast.Call) and m.resolve_name(ASN1, norm(n.func)) == f"{ASN1}.ASN1Header":
                src = None
                if what == "length":
                    src = next((k.value for k in n.keywords if k.arg == "length"), n.args[2] if len(n.args) > 2 else None)
                else:
                    tag = next((k.value for k in n.keywords if k.arg == "tag"), n.args[0] if n.args else None)
                    if isinstance(tag, ast.Call):
                        src = next((k.value for k in tag.keywords if k.arg == "tag_number"), tag.args[1] if len(tag.args) > 1 else None)
                if isinstance(src, ast.Name):
                    defs_from_calls(self.header, src.id)
        if what != "length" and not out:
            # the identifier is decoded by a helper of the header routine: the ASN1Tag(...) it builds tells where the number comes from
            for f in self.header_family:
                if f is self.header:
                    continue
                for n in walk_no_nested(f.node):
                    if isinstance(n, ast.Call) and m.resolve_name(ASN1, norm(n.func)) == f"{ASN1}.ASN1Tag":
                        src = next((k.value for k in n.keywords if k.arg == "tag_number"), n.args[1] if len(n.args) > 1 else None)
                        if isinstance(src, ast.Name):
                            defs_from_calls(f, src.id)
        return out

    def _number_consumers(self) -> List[FuncInfo]:
        """Chain of module functions the tag-number parameter of the TLV packer is handed to (outermost first)."""
        _, num_p = self.packer_params()
        out: List[FuncInfo] = []
        cur, name = self.packer, num_p
        for _ in range(4):
            if name is None:
                break
            nxt = None
            for n in walk_no_nested(cur.node):
                if isinstance(n, ast.Call) and isinstance(n.func, ast.Name):
                    q = self.m.resolve_name(cur.module, n.func.id)
                    f2 = self.m.functions.get(q) if q else None
                    if f2 is None or f2.module != ASN1 or f2.cls is not None:
                        continue
                    ps = f2.params()
                    for i, a in enumerate(n.args):
                        if isinstance(a, ast.Name) and a.id == name and i < len(ps):
                            nxt = (f2, ps[i])
                    for k in n.keywords:
                        if isinstance(k.value, ast.Name) and k.value.id == name and k.arg in ps:
                            nxt = (f2, k.arg)
            if nxt is None:
                break
            out.append(nxt[0])
            cur, name = nxt
        return out

    def packer_params(self):
        """(class param, number param) of the TLV packer, by annotation."""
        cls_p = num_p = None
        for a in self.packer.node.args.args:
            an = norm(a.annotation) if a.annotation is not None else ""
            if an.endswith("TagClass"):
                cls_p = a.arg
            elif "TypeTagNumber" in an:
                num_p = a.arg
        return cls_p, num_p


class FilterAnchors:
    def __init__(self, model: Model):
        self.m = model
        self.entry = model.func(f"{FILTER}.LDAPFilter.from_string")
        self.parser_functions = [f for f in reachable(model, self.entry, FILTER) if f is not self.entry]
        if len(self.parser_functions) < 5:
            raise AnalysisError("fewer than 5 parser functions reachable from LDAPFilter.from_string")
        self.scanners = [f for f in self.parser_functions if any(isinstance(n, ast.While) for n in walk_no_nested(f.node))]


class SchemaAnchors:
    def __init__(self, model: Model):
        self.m = model
        c = model.cls(f"{SCHEMA}.ObjectClassDescription")
        s = c.methods.get("__str__")
        f = c.methods.get("from_string")
        if s is None or f is None:
            raise AnalysisError("ObjectClassDescription.__str__/from_string not found")
        # encoder: module function applied to self.description in __str__
        self.encoder = None
        str_side = [s] + [f_ for f_ in reachable(model, s, SCHEMA) if f_ is not s]        # __str__ and the formatting helpers it is split into
        self.str_side = str_side
        for host in str_side:
            for n in ast.walk(host.node):
                if isinstance(n, ast.Call) and isinstance(n.func, ast.Name) and any(isinstance(a, ast.Attribute) and a.attr == "description" for a in n.args):
                    q = model.resolve_name(SCHEMA, n.func.id)
                    if q in model.functions and self.encoder is None:
                        self.encoder = model.functions[q]
            if self.encoder is not None:
                break
        # the function handed the description may be a field-formatting helper that passes it on to the encoder proper
        def has_sub(fi_: FuncInfo) -> bool:
            return any(isinstance(n, ast.Call) and isinstance(n.func, ast.Attribute) and n.func.attr == "sub" for n in ast.walk(fi_.node))
        for _hop in range(3):
            if self.encoder is None or has_sub(self.encoder):
                break
            enc0 = self.encoder
            pidx = None
            for n in ast.walk(s.node if _hop == 0 else ast.Module(body=[], type_ignores=[])):
                pass
            nxt = None
            desc_params = set()
            # which parameter of enc0 receives the description? (by position at the call in __str__ / by name `description`)
            for n in ast.walk(s.node):
                if isinstance(n, ast.Call) and isinstance(n.func, ast.Name) and model.resolve_name(SCHEMA, n.func.id) == enc0.qualname:
                    for i, a in enumerate(n.args):
                        if isinstance(a, ast.Attribute) and a.attr == "description" and i < len(enc0.params()):
                            desc_params.add(enc0.params()[i])
            desc_params |= {p_ for p_ in enc0.params() if "desc" in p_}
            for n in ast.walk(enc0.node):
                if isinstance(n, ast.Call) and isinstance(n.func, ast.Name) and any(isinstance(a, ast.Name) and a.id in desc_params for a in n.args):
                    q = model.resolve_name(SCHEMA, n.func.id)
                    if q in model.functions and q != enc0.qualname:
                        nxt = model.functions[q]
            if nxt is None:
                break
            self.encoder = nxt
        # decoder: module function applied in from_string to the value of the DESC group (m.group("desc") / m["desc"],
        # directly or through a local)
        from .rx.sites import group_accesses
        desc_nodes = {id(c) for c, _, g in group_accesses(f.node) if g == "desc"}
        desc_vars = set()
        for n in ast.walk(f.node):
            if isinstance(n, ast.Assign) and id(n.value) in desc_nodes:
                desc_vars |= {t.id for t in n.targets if isinstance(t, ast.Name)}
        self.decoder = None
        for n in ast.walk(f.node):
            if isinstance(n, ast.Call) and isinstance(n.func, ast.Name) and any((isinstance(a, ast.Name) and a.id in desc_vars) or id(a) in desc_nodes for a in n.args):
                q = model.resolve_name(SCHEMA, n.func.id)
                if q in model.functions:
                    self.decoder = model.functions[q]
        if self.encoder is None or self.decoder is None:
            raise AnalysisError("schema qdstring encoder/decoder not identified from __str__/from_string")


_cache: Dict[tuple, object] = {}


def asn1(model: Model) -> Asn1Anchors:
    k = (id(model), "asn1")
    if k not in _cache:
        _cache[k] = Asn1Anchors(model)
    return _cache[k]


def filt(model: Model) -> FilterAnchors:
    k = (id(model), "filter")
    if k not in _cache:
        _cache[k] = FilterAnchors(model)
    return _cache[k]


def schema(model: Model) -> SchemaAnchors:
    k = (id(model), "schema")
    if k not in _cache:
        _cache[k] = SchemaAnchors(model)
    return _cache[k]


def is_incomplete(model: Model, q: Optional[str]) -> bool:
    """q names the incomplete-input exception class or a package class above/below it"""
    if q is None:
        return False
    fam = asn1(model).incomplete_family
    return q in fam or ("." not in q and any(f.rsplit(".", 1)[-1] == q for f in fam))
