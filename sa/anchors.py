"""Discovery of private helpers through the call graph from public API names.

Public anchors (stable by contract): ASN1Reader / ASN1Writer and their methods, LDAPFilter.from_string,
the description classes' __str__ / from_string, LDAPSession.receive ... Everything private is found
from those, so that renaming a private helper never detaches a rule."""
from __future__ import annotations

import ast
from typing import Dict, List, Optional, Set

from .srcmodel import AnalysisError, FuncInfo, Model, norm, walk_no_nested

ASN1 = "sansldap.asn1"
FILTER = "sansldap._filter"
SCHEMA = "sansldap.schema"


def module_callees(model: Model, fi: FuncInfo, module: Optional[str] = None) -> List[FuncInfo]:
    """Module-level functions of `module` (default: fi's own) called directly by fi, in source order."""
    module = module or fi.module
    out: List[FuncInfo] = []
    for n in ast.walk(fi.node):
        if isinstance(n, ast.Call) and isinstance(n.func, ast.Name):
            q = model.resolve_name(fi.module, n.func.id)
            if q in model.functions and model.functions[q].module == module and model.functions[q].cls is None and model.functions[q] not in out:
                out.append(model.functions[q])
    return out


def reachable(model: Model, start: FuncInfo, module: Optional[str] = None) -> List[FuncInfo]:
    module = module or start.module
    seen: Dict[str, FuncInfo] = {start.qualname: start}
    todo = [start]
    while todo:
        f = todo.pop()
        for c in module_callees(model, f, module):
            if c.qualname not in seen:
                seen[c.qualname] = c
                todo.append(c)
    return list(seen.values())


class Asn1Anchors:
    def __init__(self, model: Model):
        self.m = model
        rd = model.cls(f"{ASN1}.ASN1Reader")
        wr = model.cls(f"{ASN1}.ASN1Writer")
        peek = rd.methods.get("peek_header")
        if peek is None:
            raise AnalysisError("ASN1Reader.peek_header not found")
        hs = module_callees(model, peek)
        if len(hs) != 1:
            raise AnalysisError(f"ASN1Reader.peek_header calls {len(hs)} module functions, expected the header routine")
        self.header = hs[0]
        self.reader_helper: Dict[str, FuncInfo] = {}
        for name, fi in rd.methods.items():
            if name.startswith("read_"):
                cs = module_callees(model, fi)
                if len(cs) == 1:
                    self.reader_helper[name] = cs[0]
        if len(self.reader_helper) < 6:
            raise AnalysisError("fewer than 6 ASN1Reader.read_* methods delegate to a module-level helper")
        # the validating helper: reached from every read helper and calls the header routine
        cands: Optional[Set[str]] = None
        for name, h in self.reader_helper.items():
            r = {f.qualname for f in reachable(model, h) if self.header in module_callees(model, f)}
            cands = r if cands is None else cands & r
        if not cands or len(cands) != 1:
            raise AnalysisError(f"validating helper not identified (candidates: {sorted(cands or [])})")
        self.validate = model.functions[cands.pop()]
        # octet-number reader: the other module function the header routine calls
        others = [f for f in module_callees(model, self.header)]
        self.octet_number_reader = others[0] if len(others) == 1 else None
        # writer side
        ex = wr.methods.get("__exit__")
        if ex is None:
            raise AnalysisError("ASN1Writer.__exit__ not found")
        ps = module_callees(model, ex)
        if len(ps) != 1:
            raise AnalysisError("ASN1Writer.__exit__ does not call exactly one TLV packing routine")
        self.packer = ps[0]
        others = [f for f in module_callees(model, self.packer)]
        self.octet_number_writer = others[0] if len(others) == 1 else None
        self.writer_helper: Dict[str, FuncInfo] = {}
        for name, fi in wr.methods.items():
            if name.startswith("write_"):
                cs = module_callees(model, fi)
                if len(cs) == 1:
                    self.writer_helper[name] = cs[0]
        if len(self.writer_helper) < 4:
            raise AnalysisError("fewer than 4 ASN1Writer.write_* methods delegate to a module-level helper")

    def packer_params(self):
        """(class param, number param) of the TLV packer, by annotation."""
        cls_p = num_p = None
        for a in self.packer.node.args.args:
            an = norm(a.annotation) if a.annotation is not None else ""
            if an.endswith("TagClass"):
                cls_p = a.arg
            elif "TypeTagNumber" in an:
                num_p = a.arg
        return cls_p, num_p


class FilterAnchors:
    def __init__(self, model: Model):
        self.m = model
        self.entry = model.func(f"{FILTER}.LDAPFilter.from_string")
        self.parser_functions = [f for f in reachable(model, self.entry, FILTER) if f is not self.entry]
        if len(self.parser_functions) < 5:
            raise AnalysisError("fewer than 5 parser functions reachable from LDAPFilter.from_string")
        self.scanners = [f for f in self.parser_functions if any(isinstance(n, ast.While) for n in walk_no_nested(f.node))]


class SchemaAnchors:
    def __init__(self, model: Model):
        self.m = model
        c = model.cls(f"{SCHEMA}.ObjectClassDescription")
        s = c.methods.get("__str__")
        f = c.methods.get("from_string")
        if s is None or f is None:
            raise AnalysisError("ObjectClassDescription.__str__/from_string not found")
        # encoder: module function applied to self.description in __str__
        self.encoder = None
        for n in ast.walk(s.node):
            if isinstance(n, ast.Call) and isinstance(n.func, ast.Name) and any(isinstance(a, ast.Attribute) and a.attr == "description" for a in n.args):
                q = model.resolve_name(SCHEMA, n.func.id)
                if q in model.functions:
                    self.encoder = model.functions[q]
        # decoder: module function applied in from_string to the value of the DESC group
        desc_vars = set()
        for n in ast.walk(f.node):
            if isinstance(n, ast.Assign) and isinstance(n.value, ast.Call) and isinstance(n.value.func, ast.Attribute) and n.value.func.attr == "group" and n.value.args and isinstance(n.value.args[0], ast.Constant) and n.value.args[0].value == "desc":
                desc_vars |= {t.id for t in n.targets if isinstance(t, ast.Name)}
        self.decoder = None
        for n in ast.walk(f.node):
            if isinstance(n, ast.Call) and isinstance(n.func, ast.Name) and any(isinstance(a, ast.Name) and a.id in desc_vars for a in n.args):
                q = model.resolve_name(SCHEMA, n.func.id)
                if q in model.functions:
                    self.decoder = model.functions[q]
        if self.encoder is None or self.decoder is None:
            raise AnalysisError("schema qdstring encoder/decoder not identified from __str__/from_string")


_cache: Dict[tuple, object] = {}


def asn1(model: Model) -> Asn1Anchors:
    k = (id(model), "asn1")
    if k not in _cache:
        _cache[k] = Asn1Anchors(model)
    return _cache[k]


def filt(model: Model) -> FilterAnchors:
    k = (id(model), "filter")
    if k not in _cache:
        _cache[k] = FilterAnchors(model)
    return _cache[k]


def schema(model: Model) -> SchemaAnchors:
    k = (id(model), "schema")
    if k not in _cache:
        _cache[k] = SchemaAnchors(model)
    return _cache[k]
