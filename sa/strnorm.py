"""Typestate analysis "does not start with a space" for the hand-written string splitting that follows the schema regexes.

RFC 4512 separates tokens with SP = 1*SPACE and pads with WSP = 0*SPACE, and the regexes accept exactly that.  The code
that cuts the matched text apart afterwards inspects positions: `x.startswith("(")`, `x[1:]` (skip the quote / paren),
`key, rest = x.split(" ", 1)`.  Each of these is only right when x does not begin with a space, i.e. when x was produced
by `.lstrip(" ")` / `.strip(...)` or is the head of a split of such a string.  The analysis tracks that one bit per
local, flow-sensitively (branches meet with AND, loops run to a fixpoint), through nested helper functions (return
tuples, parameters checked at the call sites), and reports every positional inspection of a string that may start with
a space - the exact shape of "accepted by the regex, mangled or rejected by the extraction"."""
from __future__ import annotations

import ast
from typing import Dict, List, Optional, Tuple

from .srcmodel import norm

N, U = True, False          # normalised (cannot start with a space) / unknown


def _strips_space(call: ast.Call) -> bool:
    if not (isinstance(call.func, ast.Attribute) and call.func.attr in ("lstrip", "strip")):
        return False
    if not call.args:
        return True
    a = call.args[0]
    return isinstance(a, ast.Constant) and isinstance(a.value, str) and " " in a.value


class Analysis:
    def __init__(self, func: ast.FunctionDef, qual: str, param_status: Optional[Dict[str, bool]] = None, module_funcs: Optional[Dict[str, ast.FunctionDef]] = None):
        self.func = func
        self.qual = qual
        self.module_funcs = module_funcs or {}
        self.helpers: Dict[str, ast.FunctionDef] = {k: v for k, v in self.module_funcs.items() if v is not func}
        self.helpers.update({n.name: n for n in ast.walk(func) if isinstance(n, ast.FunctionDef) and n is not func})
        self.call_args: Dict[str, List[List[bool]]] = {}
        self.violations: List[Tuple[ast.AST, str]] = []
        self.obligations = 0
        self.ret: List[List[bool]] = []          # statuses of returned tuple components, one list per return
        self.param_status = param_status or {}
        self._helper_cache: Dict[Tuple[str, Tuple[bool, ...]], "Analysis"] = {}
        self._reported = set()
        self._breaks: Optional[List[Dict[str, bool]]] = None
        self._continues: Optional[List[Dict[str, bool]]] = None

    # ---------------------------------------------------------------- expressions
    def status(self, e: ast.expr, env: Dict[str, bool]) -> bool:
        if isinstance(e, ast.Name):
            return env.get(e.id, U)
        if isinstance(e, ast.Constant):
            return isinstance(e.value, str) and not e.value.startswith(" ")
        if isinstance(e, ast.Call):
            if _strips_space(e):
                self.visit_expr(e.func.value, env)
                return N
            if isinstance(e.func, ast.Name) and e.func.id in self.helpers:
                return self.components(e, env, 1)[0]
            self.visit_expr(e, env)
            return U
        if isinstance(e, ast.Subscript):
            self.visit_expr(e, env)
            if isinstance(e.slice, ast.Slice) and e.slice.lower is None:
                return self.status(e.value, env)         # x[:k] starts like x
            return U
        self.visit_expr(e, env)
        return U

    def components(self, e: ast.expr, env: Dict[str, bool], n: int) -> List[bool]:
        """statuses of the n values a tuple-unpacked expression yields"""
        if isinstance(e, ast.Call) and isinstance(e.func, ast.Attribute) and e.func.attr in ("split", "rsplit", "partition"):
            base = self.status(e.func.value, env)
            sep = e.args[0] if e.args else None
            if isinstance(sep, ast.Constant) and sep.value == " " and e.func.attr == "split":
                self.need(e.func.value, base, e, "is cut at the first space to take the token in front of it")
            return [base] + [U] * (n - 1)
        if isinstance(e, ast.Call) and isinstance(e.func, ast.Name) and e.func.id in self.helpers:
            h = self.helpers[e.func.id]
            args = [self.status(a, env) for a in e.args]
            self.call_args.setdefault(h.name, []).append(args)
            sub = self.helper(h, args)
            # what the helper needs from its arguments
            strict = self.helper(h, [U] * len(args))
            for i, a in enumerate(e.args):
                if i < len(h.args.args):
                    p_ = h.args.args[i].arg
                    if any(p_ in why for _, why in strict.violations):
                        self.need(a, args[i], e, f"is handed to {h.name}(), which inspects its first character")
            rets = [r for r in sub.ret if len(r) == n]
            if rets:
                return [all(r[i] for r in rets) for i in range(n)]
            return [U] * n
        if isinstance(e, ast.Tuple) and len(e.elts) == n:
            return [self.status(x, env) for x in e.elts]
        self.visit_expr(e, env)
        return [U] * n

    def helper(self, h: ast.FunctionDef, args: List[bool]) -> "Analysis":
        key = (h.name, tuple(args))
        if key not in self._helper_cache:
            ps = {a.arg: (args[i] if i < len(args) else U) for i, a in enumerate(h.args.args)}
            sub = Analysis(h, f"{self.qual}.<locals>.{h.name}", ps, self.module_funcs)
            self._helper_cache[key] = sub
            sub.run()
        return self._helper_cache[key]

    def need(self, e: ast.expr, st: bool, site: ast.AST, why: str) -> None:
        self.obligations += 1
        if st is not N and any(isinstance(x, ast.Attribute) and isinstance(x.value, ast.Name) and x.value.id in ("self", "cls") for x in ast.walk(e)):
            # the text being cut apart lives in an attribute: whether it was stripped is decided by other methods, in an order
            # this per-function typestate does not see
            from .srcmodel import AnalysisError
            raise AnalysisError(f"{self.qual}:{getattr(site, 'lineno', 0)}: `{norm(e)}` is inspected by position but is kept in object state; the space-normalisation typestate follows locals only")
        if st is not N:
            k = (getattr(site, "lineno", 0), norm(e), why)
            if k not in self._reported:
                self._reported.add(k)
                self.violations.append((site, f"`{norm(e)}` {why}, but it may begin with spaces here (no lstrip/strip since it was cut out)"))

    def visit_expr(self, e: ast.AST, env: Dict[str, bool]) -> None:
        """obligations raised by positional inspections inside e"""
        for n in ast.walk(e):
            if isinstance(n, ast.Call) and isinstance(n.func, ast.Attribute) and n.func.attr == "startswith" and n.args and \
                    isinstance(n.args[0], ast.Constant) and isinstance(n.args[0].value, str) and n.args[0].value and not n.args[0].value.startswith(" "):
                self.need(n.func.value, self._st_quiet(n.func.value, env), n, f"is tested with startswith({n.args[0].value!r})")
            elif isinstance(n, ast.Subscript) and isinstance(n.ctx, ast.Load):
                sl = n.slice
                lo = sl.lower if isinstance(sl, ast.Slice) else sl
                if isinstance(lo, ast.Constant) and isinstance(lo.value, int) and (lo.value >= 1 if isinstance(sl, ast.Slice) else lo.value == 0) and self._is_text(n.value):
                    self.need(n.value, self._st_quiet(n.value, env), n, "has a fixed number of leading characters skipped/inspected")
            elif isinstance(n, ast.Call) and isinstance(n.func, ast.Name) and n.func.id in self.helpers and n is not e:
                pass

    def _is_text(self, e: ast.expr) -> bool:
        # only locals/params of this function (strings being cut); match objects, lists etc. are not Names bound by splits
        return isinstance(e, ast.Name) and e.id in self.text_vars

    def _st_quiet(self, e: ast.expr, env: Dict[str, bool]) -> bool:
        if isinstance(e, ast.Name):
            return env.get(e.id, U)
        if isinstance(e, ast.Call) and _strips_space(e):
            return N
        if isinstance(e, ast.Subscript) and isinstance(e.slice, ast.Slice) and e.slice.lower is None:
            return self._st_quiet(e.value, env)
        return U

    # ---------------------------------------------------------------- statements
    def run(self) -> None:
        # text variables: parameters annotated str/Optional[str] and locals bound from string cutting
        self.text_vars = {a.arg for a in self.func.args.args}
        for n in ast.walk(self.func):
            if isinstance(n, ast.Assign):
                v = n.value
                cut = isinstance(v, ast.Call) and isinstance(v.func, ast.Attribute) and v.func.attr in ("split", "rsplit", "partition", "lstrip", "strip", "rstrip") or \
                    isinstance(v, ast.Subscript) and isinstance(v.slice, ast.Slice) or (isinstance(v, ast.Call) and isinstance(v.func, ast.Name) and v.func.id in self.helpers)
                if cut:
                    for t in n.targets:
                        for x in ast.walk(t):
                            if isinstance(x, ast.Name):
                                self.text_vars.add(x.id)
        env = {a.arg: self.param_status.get(a.arg, U) for a in self.func.args.args}
        self.block(self.func.body, env)

    @staticmethod
    def meet(a: Dict[str, bool], b: Dict[str, bool]) -> Dict[str, bool]:
        return {k: (a.get(k, U) and b.get(k, U)) for k in set(a) | set(b)}

    def block(self, stmts: List[ast.stmt], env: Dict[str, bool]) -> Optional[Dict[str, bool]]:
        """returns the environment after the block, or None if control never falls through"""
        cur: Optional[Dict[str, bool]] = dict(env)
        for s in stmts:
            if cur is None:
                break
            cur = self.stmt(s, cur)
        return cur

    def assign(self, t: ast.expr, v: ast.expr, env: Dict[str, bool]) -> None:
        if isinstance(t, ast.Name):
            env[t.id] = self.status(v, env)
        elif isinstance(t, (ast.Tuple, ast.List)):
            sts = self.components(v, env, len(t.elts))
            for el, st in zip(t.elts, sts):
                if isinstance(el, ast.Name):
                    env[el.id] = st
                elif isinstance(el, ast.Starred) and isinstance(el.value, ast.Name):
                    env[el.value.id] = U
        else:
            self.visit_expr(v, env)

    def stmt(self, s: ast.stmt, env: Dict[str, bool]) -> Optional[Dict[str, bool]]:
        if isinstance(s, ast.FunctionDef):
            return env
        if isinstance(s, ast.Assign):
            for t in s.targets:
                self.assign(t, s.value, env)
            return env
        if isinstance(s, ast.AnnAssign):
            if s.value is not None:
                self.assign(s.target, s.value, env)
            return env
        if isinstance(s, ast.AugAssign):
            self.visit_expr(s.value, env)
            if isinstance(s.target, ast.Name):
                env[s.target.id] = U
            return env
        if isinstance(s, ast.Expr):
            self.visit_expr(s.value, env)
            return env
        if isinstance(s, ast.Return):
            if s.value is not None:
                if isinstance(s.value, ast.Tuple):
                    self.ret.append([self.status(x, env) for x in s.value.elts])
                else:
                    self.ret.append([self.status(s.value, env)])
            return None
        if isinstance(s, (ast.Raise, ast.Continue, ast.Break)):
            if isinstance(s, ast.Raise) and s.exc is not None:
                self.visit_expr(s.exc, env)
            if isinstance(s, ast.Break) and self._breaks is not None:
                self._breaks.append(dict(env))
            if isinstance(s, ast.Continue) and self._continues is not None:
                self._continues.append(dict(env))
            return None
        if isinstance(s, ast.If):
            self.visit_expr(s.test, env)
            env_t, env_f = dict(env), dict(env)
            t = s.test
            neg = isinstance(t, ast.UnaryOp) and isinstance(t.op, ast.Not)
            c = t.operand if neg else t
            if isinstance(c, ast.Call) and isinstance(c.func, ast.Attribute) and c.func.attr == "startswith" and isinstance(c.func.value, ast.Name) and c.args and \
                    isinstance(c.args[0], ast.Constant) and isinstance(c.args[0].value, str) and c.args[0].value and not c.args[0].value.startswith(" "):
                (env_f if neg else env_t)[c.func.value.id] = N          # it starts with that (non-space) text
            a = self.block(s.body, env_t)
            b = self.block(s.orelse, env_f)
            if a is None:
                return b
            if b is None:
                return a
            return self.meet(a, b)
        if isinstance(s, (ast.While, ast.For)):
            head = dict(env)
            exits: List[Dict[str, bool]] = []
            for _ in range(6):
                saved = (self._breaks, self._continues)
                self._breaks, self._continues = [], []
                viol_before, obl_before, rep_before = len(self.violations), self.obligations, set(self._reported)
                if isinstance(s, ast.While):
                    self.visit_expr(s.test, head)
                else:
                    self.visit_expr(s.iter, head)
                    for x in ast.walk(s.target):
                        if isinstance(x, ast.Name):
                            head[x.id] = U
                out = self.block(s.body, dict(head))
                backs = [e for e in [out] + self._continues if e is not None]
                brk = self._breaks
                self._breaks, self._continues = saved
                new_head = dict(env)
                for b_ in backs:
                    new_head = self.meet(new_head, b_)
                if new_head == head:
                    exits = [head] + brk
                    break
                # not stable yet: discard what this pass reported and go again from the weaker head
                del self.violations[viol_before:]
                self.obligations = obl_before
                self._reported = rep_before
                head = new_head
            else:
                exits = [head]
            res = exits[0]
            for e_ in exits[1:]:
                res = self.meet(res, e_)
            if s.orelse:
                return self.block(s.orelse, res)
            return res
        if isinstance(s, ast.Try):
            a = self.block(s.body, dict(env))
            outs = [a] if a is not None else []
            for h in s.handlers:
                b = self.block(h.body, dict(env))
                if b is not None:
                    outs.append(b)
            if not outs:
                return None
            res = outs[0]
            for o in outs[1:]:
                res = self.meet(res, o)
            return res
        if isinstance(s, ast.With):
            return self.block(s.body, env)
        return env


def analyse(func: ast.FunctionDef, qual: str, module_funcs: Optional[Dict[str, ast.FunctionDef]] = None, param_status: Optional[Dict[str, bool]] = None) -> Analysis:
    a = Analysis(func, qual, param_status, module_funcs)
    a.run()
    # violations inside nested helpers when called with the statuses seen at their call sites
    for (hname, args), sub in list(a._helper_cache.items()):
        if hname in (module_funcs or {}) and hname not in {n.name for n in ast.walk(func) if isinstance(n, ast.FunctionDef)}:
            continue            # module-level helpers are analysed on their own, with the statuses seen at all their call sites
        if all(x is U for x in args) and any(k[0] == hname and k[1] != args for k in a._helper_cache):
            continue            # the all-unknown probe only serves to learn what the helper needs
        for site, why in sub.violations:
            if not any(p_ in why.split("`")[1] for p_ in [x.arg for x in a.helpers[hname].args.args]):
                a.violations.append((site, f"in {hname}(): {why}"))
        a.obligations += sub.obligations
    return a


# ======================================================================================================================
# Grammar-position typestate for the extension parser:  extensions = *( SP xstring SP qdstrings )
#   K  in front of an xstring (or the end)            V  in front of qdstrings (a quote or an opening paren)
#   L  inside a parenthesised list, in front of a qdstring or the closing paren
#   QV / QL  inside a quoted string that was entered from V / from L        O  unknown (nothing is claimed)
# A quoted string may contain every character except a raw quote and a raw backslash.  So looking for any delimiter other
# than the quote itself while quoted text may still lie ahead (V, L, Q*) can stop inside a value: that search is the
# violation.  Unknown operations degrade to O, which never raises an alarm.
K, V, L, QV, QL, O = "K", "V", "L", "QV", "QL", "O"
SEARCHES = ("split", "rsplit", "partition", "rpartition", "find", "rfind", "index", "rindex")


class PosState:
    def __init__(self, kind: str = O, known: Optional[str] = None, excluded: frozenset = frozenset()):
        self.kind, self.known, self.excluded = kind, known, frozenset(excluded)

    def key(self):
        return (self.kind, self.known, self.excluded)

    def __eq__(self, o):
        return isinstance(o, PosState) and self.key() == o.key()

    def __hash__(self):
        return hash(self.key())

    def meet(self, o: "PosState") -> "PosState":
        if self.kind != o.kind:
            return PosState(O)
        return PosState(self.kind, self.known if self.known == o.known else None, self.excluded & o.excluded)

    def __repr__(self):
        return f"{self.kind}{'=' + self.known if self.known else ''}{'!' + ''.join(sorted(self.excluded)) if self.excluded else ''}"


class PosAnalysis:
    def __init__(self, func: ast.FunctionDef, qual: str, params: Dict[str, PosState], module_funcs: Dict[str, ast.FunctionDef]):
        self.func, self.qual, self.params = func, qual, params
        self.module_funcs = module_funcs
        self.helpers = {k: v for k, v in module_funcs.items() if v is not func}
        self.helpers.update({n.name: n for n in ast.walk(func) if isinstance(n, ast.FunctionDef) and n is not func})
        self.violations: List[Tuple[ast.AST, str]] = []
        self.searches = 0
        self.ret: List[List[PosState]] = []
        self._seen = set()
        self._cache: Dict = {}
        self._breaks = None
        self._continues = None

    def st(self, e: ast.expr, env) -> PosState:
        if isinstance(e, ast.Name):
            return env.get(e.id, PosState())
        if isinstance(e, ast.Call) and isinstance(e.func, ast.Attribute) and e.func.attr in ("lstrip", "strip", "rstrip"):
            s = self.st(e.func.value, env)
            return PosState(s.kind, s.known, s.excluded)       # stripping spaces does not move the position in the grammar
        if isinstance(e, ast.Subscript) and isinstance(e.slice, ast.Slice) and e.slice.upper is None and e.slice.step is None and \
                isinstance(e.slice.lower, ast.Constant) and e.slice.lower.value == 1:
            s = self.st(e.value, env)
            if s.kind == V:
                if s.known == "(":
                    return PosState(L)
                if "(" in s.excluded:
                    return PosState(QV)
            if s.kind == L:
                if s.known == ")":
                    return PosState(K)
                if ")" in s.excluded:
                    return PosState(QL)
            return PosState()
        if isinstance(e, ast.Call) and isinstance(e.func, ast.Name) and e.func.id in self.helpers:
            return self.comps(e, env, 1)[0]
        self.scan(e, env)
        return PosState()

    def search(self, call: ast.Call, env) -> None:
        """a delimiter search on a cut string"""
        recv = self.st(call.func.value, env)
        d = call.args[0].value if call.args and isinstance(call.args[0], ast.Constant) and isinstance(call.args[0].value, str) else None
        if recv.kind == O:
            return
        self.searches += 1
        if d is None or d == "'":
            return
        if recv.kind in (V, L, QV, QL):
            k = (call.lineno, norm(call)[:60])
            if k not in self._seen:
                self._seen.add(k)
                where = {V: "in front of the extension's value(s)", L: "inside the parenthesised value list", QV: "inside a quoted value", QL: "inside a quoted value"}[recv.kind]
                self.violations.append((call, f"`{norm(call)[:60]}` looks for {d!r} {where}: a quoted value may itself contain {d!r} "
                                              "(qdstring content is any character but a raw quote or backslash), so the cut can land inside a value"))

    def comps(self, e: ast.expr, env, n: int) -> List[PosState]:
        if isinstance(e, ast.Call) and isinstance(e.func, ast.Attribute) and e.func.attr in ("split", "rsplit", "partition") and n >= 2:
            self.search(e, env)
            recv = self.st(e.func.value, env)
            d = e.args[0].value if e.args and isinstance(e.args[0], ast.Constant) else None
            if recv.kind == K and d == " ":
                return [PosState()] + [PosState(V)] * (n - 1)
            if recv.kind in (QV, QL) and d == "'":
                return [PosState()] + [PosState(K if recv.kind == QV else L)] * (n - 1)
            return [PosState()] * n
        if isinstance(e, ast.Call) and isinstance(e.func, ast.Name) and e.func.id in self.helpers:
            h = self.helpers[e.func.id]
            args = [self.st(a, env) for a in e.args]
            key = (h.name, tuple(a.key() for a in args))
            if key not in self._cache:
                ps = {a.arg: (args[i] if i < len(args) else PosState()) for i, a in enumerate(h.args.args)}
                sub = PosAnalysis(h, f"{self.qual}>{h.name}", ps, self.module_funcs)
                self._cache[key] = sub
                sub.run()
                self.violations += sub.violations
                self.searches += sub.searches
            sub = self._cache[key]
            rets = [r for r in sub.ret if len(r) == n]
            if rets:
                out = []
                for i in range(n):
                    s0 = rets[0][i]
                    for r in rets[1:]:
                        s0 = s0.meet(r[i])
                    out.append(s0)
                return out
            return [PosState()] * n
        if isinstance(e, ast.Tuple) and len(e.elts) == n:
            return [self.st(x, env) for x in e.elts]
        self.scan(e, env)
        return [PosState()] * n

    def scan(self, e: ast.AST, env) -> None:
        for n in ast.walk(e):
            if isinstance(n, ast.Call) and isinstance(n.func, ast.Attribute) and n.func.attr in SEARCHES:
                self.search(n, env)

    def refine(self, test: ast.expr, env, truth: bool):
        neg = isinstance(test, ast.UnaryOp) and isinstance(test.op, ast.Not)
        c = test.operand if neg else test
        if neg:
            truth = not truth
        if isinstance(c, ast.Call) and isinstance(c.func, ast.Attribute) and c.func.attr == "startswith" and isinstance(c.func.value, ast.Name) and c.args and \
                isinstance(c.args[0], ast.Constant) and isinstance(c.args[0].value, str) and len(c.args[0].value) == 1:
            v = c.func.value.id
            s = env.get(v, PosState())
            ch = c.args[0].value
            env[v] = PosState(s.kind, ch, s.excluded) if truth else PosState(s.kind, None if s.known == ch else s.known, s.excluded | {ch})

    def run(self) -> None:
        env = {a.arg: self.params.get(a.arg, PosState()) for a in self.func.args.args}
        self.block(self.func.body, env)

    @staticmethod
    def meet_env(a, b):
        return {k: a.get(k, PosState()).meet(b.get(k, PosState())) for k in set(a) | set(b)}

    def block(self, stmts, env):
        cur = dict(env)
        for s in stmts:
            if cur is None:
                break
            cur = self.stmt(s, cur)
        return cur

    def assign(self, t, v, env):
        if isinstance(t, ast.Name):
            env[t.id] = self.st(v, env)
        elif isinstance(t, (ast.Tuple, ast.List)):
            sts = self.comps(v, env, len(t.elts))
            for el, s_ in zip(t.elts, sts):
                if isinstance(el, ast.Name):
                    env[el.id] = s_
        else:
            self.scan(v, env)

    def stmt(self, s, env):
        if isinstance(s, ast.FunctionDef):
            return env
        if isinstance(s, ast.Assign):
            for t in s.targets:
                self.assign(t, s.value, env)
            return env
        if isinstance(s, ast.AnnAssign):
            if s.value is not None:
                self.assign(s.target, s.value, env)
            return env
        if isinstance(s, ast.AugAssign):
            self.scan(s.value, env)
            if isinstance(s.target, ast.Name):
                env[s.target.id] = PosState()
            return env
        if isinstance(s, ast.Expr):
            self.scan(s.value, env)
            return env
        if isinstance(s, ast.Return):
            if s.value is not None:
                self.ret.append([self.st(x, env) for x in s.value.elts] if isinstance(s.value, ast.Tuple) else [self.st(s.value, env)])
            return None
        if isinstance(s, (ast.Raise, ast.Break, ast.Continue)):
            if isinstance(s, ast.Break) and self._breaks is not None:
                self._breaks.append(dict(env))
            if isinstance(s, ast.Continue) and self._continues is not None:
                self._continues.append(dict(env))
            return None
        if isinstance(s, ast.If):
            self.scan(s.test, env)
            et, ef = dict(env), dict(env)
            self.refine(s.test, et, True)
            self.refine(s.test, ef, False)
            a = self.block(s.body, et)
            b = self.block(s.orelse, ef)
            if a is None:
                return b
            if b is None:
                return a
            return self.meet_env(a, b)
        if isinstance(s, (ast.While, ast.For)):
            head = dict(env)
            for _ in range(8):
                saved = (self._breaks, self._continues)
                self._breaks, self._continues = [], []
                v0, s0, seen0 = len(self.violations), self.searches, set(self._seen)
                body_env = dict(head)
                exit_env = dict(head)
                if isinstance(s, ast.While):
                    self.scan(s.test, head)
                    self.refine(s.test, body_env, True)
                    self.refine(s.test, exit_env, False)
                else:
                    self.scan(s.iter, head)
                    for x in ast.walk(s.target):
                        if isinstance(x, ast.Name):
                            body_env[x.id] = PosState()
                out = self.block(s.body, body_env)
                backs = [e for e in [out] + self._continues if e is not None]
                brk = self._breaks
                self._breaks, self._continues = saved
                new_head = dict(env)
                for b_ in backs:
                    new_head = self.meet_env(new_head, b_)
                if all(new_head.get(k, PosState()) == head.get(k, PosState()) for k in set(new_head) | set(head)):
                    res = exit_env
                    for e_ in brk:
                        res = self.meet_env(res, e_)
                    return self.block(s.orelse, res) if s.orelse else res
                # positions are must-information: what was found while iterating from a reachable, more precise head stays found
                head = new_head
            return {k: PosState() for k in head}
        if isinstance(s, ast.Try):
            outs = [x for x in [self.block(s.body, dict(env))] + [self.block(h.body, dict(env)) for h in s.handlers] if x is not None]
            if not outs:
                return None
            res = outs[0]
            for o in outs[1:]:
                res = self.meet_env(res, o)
            return res
        if isinstance(s, ast.With):
            return self.block(s.body, env)
        return env
