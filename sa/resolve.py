"""Local type inference and callee resolution (class-hierarchy analysis).

Types are small tuples:
  ("inst", clsq)      instance of a package class
  ("type", clsq)      the class object itself (t.Type[X], a class name)
  ("list", T) ("dict", Tk, Tv) ("tuple", [T...]) ("opt", T)
  ("prim", name)      bytes/str/int/bool/bytearray/memoryview/byteslike/none/float/match/pattern/set
  ("funcs", [qual...]) a callable that is one of these package functions
  ("unknown",)
"""
from __future__ import annotations

import ast
from typing import Dict, List, Optional, Tuple

from .srcmodel import AnalysisError, FuncInfo, Model, norm, walk_no_nested

UNK = ("unknown",)
BUILTIN_METHOD_NAMES = {"append", "extend", "insert", "pop", "remove", "clear", "copy", "get", "items", "keys", "values", "update", "setdefault", "add", "discard",
                        "join", "split", "strip", "lstrip", "rstrip", "encode", "decode", "format", "startswith", "endswith", "replace", "find", "index", "count",
                        "lower", "upper", "match", "search", "fullmatch", "sub", "group", "groups", "tobytes", "hex", "to_bytes", "from_bytes", "release", "sort",
                        "reverse", "partition", "rpartition", "read", "write", "close", "send", "throw", "__init__"}
PRIMS = {"bytes", "str", "int", "bool", "bytearray", "memoryview", "float", "object"}


def prim(n: str):
    return ("prim", n)


class Resolver:
    def __init__(self, model: Model):
        self.m = model
        self._env_cache: Dict[str, Dict[str, tuple]] = {}
        self.unresolved: List[str] = []

    # ------------------------------------------------------------ annotations
    def anno(self, module: str, a: Optional[ast.expr]) -> tuple:
        if a is None:
            return UNK
        if isinstance(a, ast.Constant):
            if a.value is None:
                return prim("none")
            if isinstance(a.value, str):
                try:
                    return self.anno(module, ast.parse(a.value, mode="eval").body)
                except SyntaxError:
                    return UNK
            return UNK
        if isinstance(a, ast.Name):
            if a.id in PRIMS:
                return prim(a.id)
            q = self.m.resolve_name(module, a.id)
            if q in self.m.classes:
                return ("inst", q)
            tv = self.typevar(module, a.id)
            if tv is not None:
                return tv
            return UNK
        if isinstance(a, ast.Attribute):
            txt = norm(a)
            q = self.m.resolve_name(module, txt)
            if q in self.m.classes:
                return ("inst", q)
            tail = txt.split(".")[-1]
            if tail in ("Match",):
                return prim("match")
            if tail in ("Pattern",):
                return prim("pattern")
            if tail == "Any":
                return UNK
            return UNK
        if isinstance(a, ast.Subscript):
            head = norm(a.value).split(".")[-1]
            args = a.slice.elts if isinstance(a.slice, ast.Tuple) else [a.slice]
            if head == "Optional":
                return ("opt", self.anno(module, args[0]))
            if head == "Match":
                return prim("match")
            if head == "Pattern":
                return prim("pattern")
            if head in ("Final", "ClassVar", "Annotated"):
                return self.anno(module, args[0])
            if head in ("Set", "set", "FrozenSet"):
                return prim("set")
            if head in ("List", "list", "Sequence", "Iterable"):
                return ("list", self.anno(module, args[0]))
            if head in ("Dict", "dict"):
                return ("dict", self.anno(module, args[0]), self.anno(module, args[1]) if len(args) > 1 else UNK)
            if head in ("Tuple", "tuple"):
                return ("tuple", [self.anno(module, x) for x in args])
            if head in ("Type", "type"):
                t = self.anno(module, args[0])
                return ("type", t[1]) if t[0] == "inst" else UNK
            if head == "Union":
                ts = [self.anno(module, x) for x in args]
                names = {t[1] for t in ts if t[0] == "prim"}
                if names and names <= {"bytes", "bytearray", "memoryview"}:
                    return prim("byteslike")
                non_none = [t for t in ts if t != prim("none")]
                if len(non_none) == 1:
                    return ("opt", non_none[0])
                if names and names <= {"int"} or all(t[0] == "inst" and self.m.classes[t[1]].is_enum or t == prim("int") for t in ts):
                    return prim("int")
                return UNK
            if head == "Callable":
                # Callable[<params>, R]: calling it yields R
                if len(args) == 2:
                    pts = [self.anno(module, x) for x in args[0].elts] if isinstance(args[0], ast.List) else None
                    return ("callable", self.anno(module, args[1]), pts)
                return UNK
            return UNK
        if isinstance(a, ast.BinOp) and isinstance(a.op, ast.BitOr):
            # X | None, bytes | bytearray | memoryview
            parts = []
            def flat(x):
                if isinstance(x, ast.BinOp) and isinstance(x.op, ast.BitOr):
                    flat(x.left); flat(x.right)
                else:
                    parts.append(x)
            flat(a)
            union = ast.Subscript(value=ast.Name(id="Union", ctx=ast.Load()), slice=ast.Tuple(elts=parts, ctx=ast.Load()), ctx=ast.Load())
            return self.anno(module, union)
        return UNK

    def typevar(self, module: str, name: str) -> Optional[tuple]:
        for st in self.m.modules[module].globals_.get(name, []):
            v = getattr(st, "value", None)
            if isinstance(v, ast.Call) and norm(v.func).split(".")[-1] == "TypeVar":
                cons = [self.anno(module, x) for x in v.args[1:]]
                for k in v.keywords:
                    if k.arg == "bound":
                        return self.anno(module, k.value)
                non_none = [c for c in cons if c != prim("none")]
                if len(non_none) == 1:
                    return ("opt", non_none[0]) if len(cons) > 1 else non_none[0]
                return ("typevar", name)
        return None

    @staticmethod
    def strip_opt(t: tuple) -> tuple:
        while t and t[0] == "opt":
            t = t[1]
        return t

    # ------------------------------------------------------------ environments
    def env(self, fi: FuncInfo) -> Dict[str, tuple]:
        if fi.qualname in self._env_cache:
            return self._env_cache[fi.qualname]
        env: Dict[str, tuple] = {}
        self._env_cache[fi.qualname] = env
        try:
            return self._build_env(fi, env)
        except BaseException:
            self._env_cache.pop(fi.qualname, None)     # never leave a half-built environment behind
            raise

    def _build_env(self, fi: FuncInfo, env: Dict[str, tuple], overrides: Optional[Dict[str, tuple]] = None) -> Dict[str, tuple]:
        node = fi.node
        a = node.args
        params = a.posonlyargs + a.args + a.kwonlyargs
        for i, p in enumerate(params):
            if i == 0 and fi.cls and not fi.is_staticmethod and not isinstance(node, ast.Lambda):
                env[p.arg] = ("type", fi.cls) if fi.is_classmethod else ("inst", fi.cls)
            else:
                env[p.arg] = self.anno(fi.module, p.annotation)
        for k, v in (overrides or {}).items():
            if k in env:
                env[k] = v
        for k, v in (getattr(fi, "lambda_ptypes", None) or {}).items():
            if k in env and env[k] == UNK:
                env[k] = v
        if isinstance(node, ast.Lambda):
            return env
        # leading guard clauses `if not isinstance(p, T): return/raise` narrow an untyped (object / Any) parameter to T
        stored = {x.id for x in walk_no_nested(node) if isinstance(x, ast.Name) and isinstance(x.ctx, (ast.Store, ast.Del))}
        for s in node.body:
            if isinstance(s, ast.Expr) and isinstance(s.value, ast.Constant):
                continue
            t_ = s.test if isinstance(s, ast.If) else None
            if not (isinstance(t_, ast.UnaryOp) and isinstance(t_.op, ast.Not) and isinstance(t_.operand, ast.Call) and isinstance(t_.operand.func, ast.Name)
                    and t_.operand.func.id == "isinstance" and len(t_.operand.args) == 2 and isinstance(t_.operand.args[0], ast.Name)
                    and not s.orelse and s.body and isinstance(s.body[-1], (ast.Return, ast.Raise))):
                break
            pn = t_.operand.args[0].id
            if env.get(pn) in (UNK, prim("object")) and pn not in stored:
                nt = self.anno(fi.module, t_.operand.args[1])
                if nt != UNK:
                    env[pn] = nt
        # two passes so that later assignments can use earlier ones
        nodes = sorted((x for x in walk_no_nested(node) if hasattr(x, "lineno") or isinstance(x, ast.comprehension)),
                       key=lambda x: (getattr(x, "lineno", None) or getattr(getattr(x, "target", None), "lineno", 0), getattr(x, "col_offset", 0)))
        for _ in range(3):
            for n in nodes:
                if isinstance(n, ast.AnnAssign) and isinstance(n.target, ast.Name):
                    t = self.anno(fi.module, n.annotation)
                    if t == UNK and n.value is not None:
                        t = self.type_of(n.value, fi, env)
                    elif n.value is not None and self.strip_opt(t)[0] == "callable":
                        # `f: Callable[...] = TABLE.get(k)`: which functions f can be is in the value, not in its signature
                        vt = self.type_of(n.value, fi, env)
                        if vt != UNK:
                            t = vt
                    if isinstance(n.value, ast.Dict) and self._bound_once(node, n.target.id):
                        t = ("dictlit", fi.module, n.value)        # a local dispatch table
                    env[n.target.id] = t
                elif isinstance(n, ast.Assign) and len(n.targets) == 1 and isinstance(n.targets[0], ast.Name) and isinstance(n.value, ast.Dict) and \
                        n.value.keys and self._bound_once(node, n.targets[0].id):
                    env[n.targets[0].id] = ("dictlit", fi.module, n.value)
                elif isinstance(n, ast.Assign):
                    t = self.type_of(n.value, fi, env)
                    for tg in n.targets:
                        self._bind(tg, t, env)
                elif isinstance(n, (ast.For, ast.comprehension)):
                    it = self.strip_opt(self.type_of(n.iter, fi, env))
                    et = UNK
                    if it[0] == "list":
                        et = it[1]
                    elif it == prim("range"):
                        et = prim("int")
                    elif it[0] == "enumerate":
                        et = ("tuple", [prim("int"), it[1]])
                    elif it in (prim("bytes"), prim("bytearray"), prim("memoryview"), prim("byteslike")):
                        et = prim("int")
                    elif it == prim("str"):
                        et = prim("str")
                    elif it[0] == "dictitems":
                        et = ("tuple", [it[1], it[2]])
                    self._bind(n.target, et, env)
                elif isinstance(n, ast.With):
                    for item in n.items:
                        if item.optional_vars is not None:
                            t = self.type_of(item.context_expr, fi, env)
                            self._bind(item.optional_vars, t, env)
                elif isinstance(n, ast.ExceptHandler) and n.name:
                    env[n.name] = prim("exception")
                elif isinstance(n, (ast.FunctionDef, ast.AsyncFunctionDef)) and n is not node:
                    env[n.name] = ("funcs", [f"{fi.qualname}.<locals>.{n.name}"])
                    q = f"{fi.qualname}.<locals>.{n.name}"
                    if q not in self.m.functions:
                        self.m.functions[q] = FuncInfo(q, n.name, fi.module, None, n, [])
                        self.m.functions[q].parent = fi.qualname
        return env

    @staticmethod
    def _bound_once(func_node: ast.AST, name: str) -> bool:
        """the local is bound exactly once and never used as the target of an item store / a mutating call"""
        stores = [x for x in walk_no_nested(func_node) if isinstance(x, ast.Name) and x.id == name and isinstance(x.ctx, (ast.Store, ast.Del))]
        if len(stores) != 1:
            return False
        for x in walk_no_nested(func_node):
            if isinstance(x, ast.Subscript) and isinstance(x.ctx, (ast.Store, ast.Del)) and isinstance(x.value, ast.Name) and x.value.id == name:
                return False
            if isinstance(x, ast.Call) and isinstance(x.func, ast.Attribute) and isinstance(x.func.value, ast.Name) and x.func.value.id == name and \
                    x.func.attr in ("update", "pop", "popitem", "clear", "setdefault", "__setitem__", "__delitem__"):
                return False
        return True

    def _bind(self, tg: ast.expr, t: tuple, env: Dict[str, tuple]) -> None:
        if isinstance(tg, ast.Name):
            old = env.get(tg.id, UNK)
            none = prim("none")
            if old[0] == "funcs" and t[0] == "funcs":
                env[tg.id] = ("funcs", list(old[1]) + [q for q in t[1] if q not in old[1]])
            elif old == none and t not in (UNK, none):
                env[tg.id] = t if t[0] == "opt" else ("opt", t)
            elif t == none and old not in (UNK, none):
                env[tg.id] = old if old[0] == "opt" else ("opt", old)
            elif old != UNK and old[0] == "opt" and t != UNK and t[0] != "opt":
                pass
            elif old == UNK or t != UNK:
                env[tg.id] = t
        elif isinstance(tg, (ast.Tuple, ast.List)):
            t = self.strip_opt(t)
            if t[0] == "inst" and t[1] in self.m.classes and any(b.endswith("NamedTuple") for b in self.m.classes[t[1]].bases):
                c = self.m.classes[t[1]]
                t = ("tuple", [self.anno(c.module, a.annotation) for a in c.annos.values()])
            for i, e in enumerate(tg.elts):
                et = UNK
                if isinstance(e, ast.Starred):
                    # a, *rest = xs: rest is always a list (of the element type when xs is a homogeneous list)
                    self._bind(e.value, ("list", t[1] if t[0] == "list" else UNK), env)
                    continue
                if t[0] == "tuple" and i < len(t[1]):
                    et = t[1][i]
                elif t[0] == "list":
                    et = t[1]
                self._bind(e, et, env)

    # ------------------------------------------------------------ expression types
    def type_of(self, e: ast.expr, fi: FuncInfo, env: Optional[Dict[str, tuple]] = None) -> tuple:
        env = env if env is not None else self.env(fi)
        if isinstance(e, ast.Constant):
            v = e.value
            if v is None:
                return prim("none")
            return prim(type(v).__name__)
        if isinstance(e, ast.JoinedStr):
            return prim("str")
        if isinstance(e, ast.Name):
            if e.id in env:
                return env[e.id]
            # a nested function / lambda reads the locals of the function it was written in
            par = getattr(fi, "parent", None)
            hops = 0
            while par and par in self.m.functions and hops < 4:
                penv = self.env(self.m.functions[par])
                if e.id in penv:
                    return penv[e.id]
                par = getattr(self.m.functions[par], "parent", None)
                hops += 1
            q = self.m.resolve_name(fi.module, e.id)
            if q in self.m.classes:
                return ("type", q)
            if q in self.m.functions:
                return ("funcs", [q])
            if q and q.rsplit(".", 1)[0] in self.m.modules:
                mod, nm = q.rsplit(".", 1)
                return self.global_type(mod, nm)
            return UNK
        if isinstance(e, ast.Attribute):
            bt = self.strip_opt(self.type_of(e.value, fi, env))
            return self.attr_type(bt, e.attr, fi)
        if isinstance(e, ast.Call):
            return self.call_type(e, fi, env)
        if isinstance(e, ast.Subscript):
            bt = self.strip_opt(self.type_of(e.value, fi, env))
            if isinstance(e.slice, ast.Slice):
                return bt
            if bt[0] == "list":
                return bt[1]
            if bt[0] == "dict":
                return bt[2]
            if bt[0] == "dictlit":
                return ("dictget", bt)
            if bt[0] == "tuple":
                if isinstance(e.slice, ast.Constant) and isinstance(e.slice.value, int) and e.slice.value < len(bt[1]):
                    return bt[1][e.slice.value]
                return UNK
            if bt in (prim("bytes"), prim("bytearray"), prim("memoryview"), prim("byteslike")):
                return prim("int")
            if bt == prim("str"):
                return prim("str")
            if bt == prim("match"):
                if isinstance(e.slice, ast.Constant) and e.slice.value == 0:
                    return prim("strlike")
                return ("opt", prim("strlike"))
            return UNK
        if isinstance(e, ast.BoolOp):
            ts = [self.type_of(v, fi, env) for v in e.values]
            for t in ts:
                t = self.strip_opt(t)
                if t not in (UNK, prim("none")):
                    return t
            return UNK
        if isinstance(e, ast.IfExp):
            t = self.type_of(e.body, fi, env)
            t2 = self.type_of(e.orelse, fi, env)
            if t[0] == "funcs" and t2[0] == "funcs":
                return ("funcs", list(t[1]) + [q for q in t2[1] if q not in t[1]])
            return t if t != UNK else t2
        if isinstance(e, (ast.List, ast.ListComp)):
            if isinstance(e, ast.List) and e.elts:
                return ("list", self.type_of(e.elts[0], fi, env))
            if isinstance(e, ast.ListComp):
                return ("list", UNK)
            return ("list", UNK)
        if isinstance(e, ast.Tuple):
            return ("tuple", [self.type_of(x, fi, env) for x in e.elts])
        if isinstance(e, ast.Dict):
            return ("dict", UNK, self.type_of(e.values[0], fi, env) if e.values else UNK)
        if isinstance(e, ast.Compare) or (isinstance(e, ast.UnaryOp) and isinstance(e.op, ast.Not)):
            return prim("bool")
        if isinstance(e, ast.BinOp):
            lt = self.type_of(e.left, fi, env)
            rt = self.type_of(e.right, fi, env)
            if lt == prim("str") or rt == prim("str"):
                return prim("str")
            if lt in (prim("bytes"), prim("bytearray")):
                return lt
            if lt in (prim("int"), prim("bool")) or rt in (prim("int"), prim("bool")):
                return prim("int")
            return lt if lt != UNK else rt
        if isinstance(e, ast.UnaryOp):
            return self.type_of(e.operand, fi, env)
        if isinstance(e, ast.GeneratorExp):
            return ("gen", e)
        if isinstance(e, ast.Lambda):
            return ("lambda", e)
        return UNK

    def global_type(self, mod: str, nm: str) -> tuple:
        m = self.m.modules[mod]
        for st in m.globals_.get(nm, []):
            if isinstance(st, ast.AnnAssign):
                t = self.anno(mod, st.annotation)
                if t != UNK:
                    if t[0] == "dict" and isinstance(st.value, ast.Dict):
                        return ("dictlit", mod, st.value)
                    return t
            if isinstance(st, (ast.Assign, ast.AnnAssign)) and st.value is not None:
                v = st.value
                if isinstance(v, ast.Call) and norm(v.func) in ("re.compile",):
                    return prim("pattern")
                if isinstance(v, ast.Dict):
                    return ("dictlit", mod, v)
                if isinstance(v, (ast.Constant, ast.JoinedStr)):
                    return prim("str") if isinstance(v, ast.JoinedStr) else prim(type(v.value).__name__)
        return UNK

    def attr_type(self, bt: tuple, attr: str, fi: FuncInfo) -> tuple:
        if bt[0] == "inst":
            c = self.m.classes.get(bt[1])
            if c is None:
                return UNK
            # dataclass / annotated fields through the MRO
            for k in c.mro:
                kc = self.m.classes.get(k)
                if kc and attr in kc.annos:
                    t = self.anno(kc.module, kc.annos[attr].annotation)
                    if t != UNK:
                        return t
            # attributes assigned in __init__ with annotation or constructor
            inits = [self.m.classes[k].methods["__init__"] for k in c.mro if k in self.m.classes and "__init__" in self.m.classes[k].methods]
            for init in inits:
                for n in ast.walk(init.node):
                    if isinstance(n, ast.AnnAssign) and isinstance(n.target, ast.Attribute) and n.target.attr == attr:
                        return self.anno(init.module, n.annotation)
                    if isinstance(n, ast.Assign) and any(isinstance(t, ast.Attribute) and t.attr == attr for t in n.targets):
                        # `self._data = parent._data if parent else bytearray()`: the attribute's type in terms of itself - cut the cycle
                        busy = self.__dict__.setdefault("_attr_busy", set())
                        key_ = (bt[1], attr)
                        if key_ in busy:
                            return UNK
                        busy.add(key_)
                        try:
                            t_ = self.type_of(n.value, init)
                        finally:
                            busy.discard(key_)
                        if t_ == UNK and isinstance(n.value, ast.IfExp):
                            for alt in (n.value.body, n.value.orelse):
                                busy.add(key_)
                                try:
                                    t2 = self.type_of(alt, init)
                                finally:
                                    busy.discard(key_)
                                if t2 != UNK:
                                    return t2
                        return t_
            mt = self.m.find_method(bt[1], attr)
            if mt is not None:
                return ("method", bt, attr)
            if c.is_enum and attr in ("value",):
                return prim("int") if any(b.endswith("IntEnum") or b == "int" for b in c.mro) else prim("str")
            if c.is_enum and attr == "name":
                return prim("str")
            # NamedTuple fields
            if attr in c.annos:
                return self.anno(c.module, c.annos[attr].annotation)
            return UNK
        if bt[0] == "type":
            c = self.m.classes.get(bt[1])
            if c is None:
                return UNK
            if c.is_enum and attr in c.consts:
                return ("inst", bt[1])
            if c.is_enum and attr in ("_value2member_map_", "_member_map_", "__members__"):
                return ("dict", UNK, ("inst", bt[1]))       # the enum machinery's own tables
            mt = self.m.find_method(bt[1], attr)
            if mt is not None:
                return ("method", bt, attr)
            cc = self.m.class_const(bt[1], attr)
            if cc is not None:
                for k in c.mro:
                    kc = self.m.classes.get(k)
                    if kc and attr in kc.annos:
                        return self.anno(kc.module, kc.annos[attr].annotation)
                return UNK
            if attr == "__name__":
                return prim("str")
            return UNK
        if bt[0] == "prim":
            return ("pmethod", bt[1], attr)
        if bt[0] in ("list", "dict", "tuple", "dictlit"):
            return ("pmethod", bt[0], attr, bt)
        return UNK

    def call_type(self, e: ast.Call, fi: FuncInfo, env) -> tuple:
        f = e.func
        if isinstance(f, ast.Name):
            n = f.id
            if n in env and env[n][0] in ("funcs",):
                q = env[n][1][0]
                return self.anno(self.m.functions[q].module, self.m.functions[q].node.returns) if not isinstance(self.m.functions[q].node, ast.Lambda) else UNK
            if n in env and env[n][0] == "callable":
                return env[n][1]
            if n in ("bytes", "bytearray", "memoryview", "str", "int", "bool", "float"):
                return prim(n)
            if n == "len" or n == "ord":
                return prim("int")
            if n == "chr" or n == "repr":
                return prim("str")
            if n == "range":
                return prim("range")
            if n == "list":
                if e.args:
                    t = self.strip_opt(self.type_of(e.args[0], fi, env))
                    if t[0] == "list":
                        return t
                return ("list", UNK)
            if n == "set":
                return prim("set")
            if n == "enumerate" and e.args:
                t = self.strip_opt(self.type_of(e.args[0], fi, env))
                et = t[1] if t[0] == "list" else (prim("int") if t[0] == "prim" and t[1] in ("bytes", "bytearray", "memoryview", "byteslike") else UNK)
                return ("enumerate", et)
            if n == "next" and e.args:
                t = self.type_of(e.args[0], fi, env)
                if t[0] == "gen":
                    g = t[1]
                    # bind the generator's loop variables locally
                    genv = dict(env)
                    for comp in g.generators:
                        it = self.strip_opt(self.type_of(comp.iter, fi, genv))
                        self._bind(comp.target, it[1] if it[0] == "list" else UNK, genv)
                    et = self.type_of(g.elt, fi, genv)
                    if et[0] == "method":
                        return et
                    if len(e.args) > 1:
                        d = self.type_of(e.args[1], fi, env)
                        return et if et != UNK else d
                    return et
                return UNK
            if n == "type":
                return UNK
            if n == "super":
                return ("super", fi.cls)
            if n == "isinstance":
                return prim("bool")
            q = self.m.resolve_name(fi.module, n)
            if q in self.m.classes:
                return ("inst", q)
            if q in self.m.functions:
                fn = self.m.functions[q]
                rt = self.anno(fn.module, fn.node.returns)
                if rt[0] == "callable":
                    mt = self.returned_method(fn)
                    if mt is not None:
                        return mt
                return rt if rt != UNK else self.specialised_return(fn, e, fi, env)
            return UNK
        if isinstance(f, ast.Attribute):
            bt = self.strip_opt(self.type_of(f.value, fi, env))
            at = self.attr_type(bt, f.attr, fi) if bt[0] != "super" else ("method", ("super", bt[1]), f.attr)
            if bt[0] == "super":
                mt = self.m.find_method(fi.cls, f.attr, after=fi.cls) if fi.cls else None
                return self.anno(mt.module, mt.node.returns) if mt is not None else UNK
            if at[0] == "method":
                owner = at[1][1]
                mt = self.m.find_method(owner, at[2])
                if mt is not None:
                    rt = self.anno(mt.module, mt.node.returns)
                    if rt[0] == "callable":
                        sel = self.returned_method(mt)
                        if sel is not None:
                            return sel
                    # classmethod constructors annotated with the subclass name are fine as-is
                    if rt == UNK:
                        rt = self.specialised_return(mt, e, fi, env)
                    return rt
                return UNK
            if at[0] == "pmethod":
                base, name = at[1], at[2]
                if base == "strlike":
                    base = "str"
                if name in ("decode",):
                    return prim("str")
                if name in ("encode", "tobytes", "to_bytes"):
                    return prim("bytes")
                if name == "hex" and base in ("bytes", "bytearray", "memoryview", "byteslike"):
                    return prim("str")
                if name in ("strip", "lstrip", "rstrip", "upper", "lower", "join", "format", "replace", "casefold") and base == "str":
                    return prim("str")
                if name in ("strip", "lstrip", "rstrip", "upper", "replace") and base in ("bytes", "bytearray"):
                    return prim(base)
                if name in ("split", "rsplit", "splitlines"):
                    return ("list", prim("str" if base == "str" else "bytes"))
                if name in ("partition", "rpartition"):
                    return ("tuple", [prim(base)] * 3)
                if name == "group" and base == "match":
                    if not e.args or (len(e.args) == 1 and isinstance(e.args[0], ast.Constant) and e.args[0].value == 0):
                        return prim("strlike")       # the whole match is never None
                    return ("opt", prim("strlike"))
                if name in ("match", "search", "fullmatch") and base == "pattern":
                    return ("opt", prim("match"))
                if name == "sub" and base == "pattern":
                    return prim("strlike")
                if name == "get" and base in ("dict",):
                    if len(e.args) >= 2 and not (isinstance(e.args[1], ast.Constant) and e.args[1].value is None):
                        d = self.type_of(e.args[1], fi, env)
                        return at[3][2] if at[3][2] != UNK else d
                    return ("opt", at[3][2])
                if name == "get" and base == "dictlit":
                    if len(e.args) >= 2 and not (isinstance(e.args[1], ast.Constant) and e.args[1].value is None):
                        return ("dictget", at[3], e.args[1])
                    return ("dictget", at[3])
                if name == "items" and base == "dict":
                    return ("dictitems", at[3][1], at[3][2])
                if name == "pop" and base == "list":
                    return at[3][1]
                if name in ("startswith", "endswith", "isdigit"):
                    return prim("bool")
                if name in ("find", "index", "count"):
                    return prim("int")
                if name == "copy":
                    return at[3] if len(at) > 3 else prim(base)
                return UNK
            # module functions: re.match, struct.unpack, base64.b16decode ...
            txt = norm(f)
            if txt in ("re.compile",):
                return prim("pattern")
            if txt in ("re.match", "re.search", "re.fullmatch"):
                return ("opt", prim("match"))
            if txt == "re.sub":
                return prim("str")
            if txt == "struct.unpack":
                return ("tuple", [prim("int")])
            if txt in ("base64.b16decode", "bytes.fromhex", "binascii.unhexlify", "base64.b64decode"):
                return prim("bytes")
            if txt == "bytearray.fromhex":
                return prim("bytearray")
            if txt == "int.__new__":
                return UNK
            if txt == "object.__setattr__":
                return prim("none")
            q = self.m.resolve_name(fi.module, txt)
            if q in self.m.functions:
                fn = self.m.functions[q]
                return self.anno(fn.module, fn.node.returns)
            if q in self.m.classes:
                return ("inst", q)
        return UNK

    def lambda_info(self, fi: FuncInfo, lam: ast.Lambda, ptypes: Optional[List[tuple]] = None) -> FuncInfo:
        """FuncInfo of a lambda written inside fi (registered once), with parameter types taken from the Callable annotation of the
        parameter it is passed for."""
        q = f"{fi.qualname}.<lambda>@{getattr(lam, 'lineno', 0)}:{getattr(lam, 'col_offset', 0)}"
        if q not in self.m.functions:
            li = FuncInfo(q, "<lambda>", fi.module, None, lam, [])
            li.parent = fi.qualname
            self.m.functions[q] = li
        li = self.m.functions[q]
        if ptypes:
            names = [a.arg for a in lam.args.args]
            li.lambda_ptypes = {n: t for n, t in zip(names, ptypes) if t != UNK}
            self._env_cache.pop(q, None)
        return li

    def returned_method(self, fn: FuncInfo) -> Optional[tuple]:
        """A selector function annotated `-> Callable[...]` whose every return is the same-named method of classes in one
        hierarchy: the ("method", owner, name) type of the most general owner (calls resolve by class-hierarchy analysis)."""
        if isinstance(fn.node, ast.Lambda):
            return None
        env = self.env(fn)
        ts = []
        for r in walk_no_nested(fn.node):
            if isinstance(r, ast.Return) and r.value is not None:
                t = self.strip_opt(self.type_of(r.value, fn, env))
                if t[0] in ("dictget", "funcs") and not ts:
                    # the selector hands back an entry of a dispatch table / a package function: that is what gets called
                    rest = [x for x in walk_no_nested(fn.node) if isinstance(x, ast.Return) and x.value is not None and x is not r]
                    if all(self.strip_opt(self.type_of(x.value, fn, env)) == t for x in rest):
                        return t
                if t[0] != "method":
                    return None
                ts.append(t)
        if not ts or len({t[2] for t in ts}) != 1:
            return None
        for t in ts:
            if all(self.m.is_subclass(u[1][1], t[1][1]) for u in ts):
                return ("method", ("type", t[1][1]) if all(u[1][0] == "type" for u in ts) else t[1], t[2])
        return None

    def specialised_return(self, callee: FuncInfo, e: ast.Call, fi: FuncInfo, env) -> tuple:
        """Return type of a callee annotated `Any` (or not at all) that is handed a package function at this call site:
        the callee's returned expression is typed with that parameter bound to the function."""
        if isinstance(callee.node, ast.Lambda) or getattr(self, "_spec_depth", 0) > 2:
            return UNK
        ps = callee.params()
        if callee.cls and not callee.is_staticmethod:
            ps = ps[1:]
        over: Dict[str, tuple] = {}
        for i, a in enumerate(e.args):
            if i < len(ps):
                t = self.type_of(a, fi, env)
                if t[0] == "funcs":
                    over[ps[i]] = t
        for k in e.keywords:
            if k.arg in ps:
                t = self.type_of(k.value, fi, env)
                if t[0] == "funcs":
                    over[k.arg] = t
        if not over:
            return UNK
        self._spec_depth = getattr(self, "_spec_depth", 0) + 1
        try:
            env2 = self._build_env(callee, {}, over)
            for r in walk_no_nested(callee.node):
                if isinstance(r, ast.Return) and r.value is not None:
                    t = self.type_of(r.value, callee, env2)
                    if t != UNK:
                        return t
        finally:
            self._spec_depth -= 1
        return UNK

    # ------------------------------------------------------------ callee resolution
    def _param_callees(self, fi: FuncInfo, pname: str) -> Optional[List[FuncInfo]]:
        """What a callable parameter of a private function / uniquely named method may be bound to: the functions and bound
        methods handed over at every call site in the package.  None when a call site is not understood."""
        ck = (fi.qualname, pname)
        cache = self.__dict__.setdefault("_pc_cache", {})
        if ck in cache:
            return cache[ck]
        cache[ck] = None
        if isinstance(fi.node, ast.Lambda) or pname not in fi.params() or "<locals>" in fi.qualname:
            return None
        if any(isinstance(x, ast.Name) and x.id == pname and isinstance(x.ctx, ast.Store) for x in walk_no_nested(fi.node)):
            return None
        ps = fi.params()
        off = 1 if fi.cls and not fi.is_staticmethod else 0
        idx = ps.index(pname) - off
        if idx < 0:
            return None
        if fi.cls is not None:
            owners = [c for c in self.m.classes.values() if fi.name in c.methods]
            if len(owners) != 1 or fi.name in BUILTIN_METHOD_NAMES or fi.name.startswith("__"):
                return None
        out: List[FuncInfo] = []
        n_sites = 0
        for g in list(self.m.functions.values()):
            if isinstance(g.node, ast.Lambda) or fi.name not in self.m.modules[g.module].source:
                continue
            calls = {id(c.func): c for c in ast.walk(g.node) if isinstance(c, ast.Call)}
            for x in walk_no_nested(g.node):
                hit = None
                if fi.cls is None and isinstance(x, ast.Name) and isinstance(x.ctx, ast.Load) and x.id == fi.name and self.m.resolve_name(g.module, x.id) == fi.qualname:
                    hit = x
                elif fi.cls is not None and isinstance(x, ast.Attribute) and x.attr == fi.name:
                    hit = x
                if hit is None:
                    continue
                c = calls.get(id(hit))
                if c is None or any(isinstance(a, ast.Starred) for a in c.args) or any(k.arg is None for k in c.keywords):
                    return None          # the function itself is passed around: call sites unknown
                n_sites += 1
                arg = c.args[idx] if idx < len(c.args) else next((k.value for k in c.keywords if k.arg == pname), None)
                if arg is None:
                    return None
                t = self.strip_opt(self.type_of(arg, g))
                if t[0] == "funcs":
                    out += [self.m.functions[q] for q in t[1] if self.m.functions[q] not in out]
                elif t[0] == "method":
                    r = self._method_targets(t, None, None, cha_all=True)
                    if r[0] != "funcs":
                        return None
                    out += [m for m in r[1] if m not in out]
                else:
                    return None
        cache[ck] = out if n_sites and out else None
        return cache[ck]

    def callees(self, e: ast.Call, fi: FuncInfo, self_cls: Optional[str] = None):
        """Resolve a call site. Returns one of
           ("funcs", [FuncInfo...], recv_expr|None)   package functions/methods (CHA for instance receivers)
           ("ctor", clsq)                              constructor of a package class
           ("builtin", name, recv_type)                catalogue lookup key
           ("unknown", text)
        self_cls: concrete class of `self`/`cls` when known (context-sensitive dispatch)."""
        env = self.env(fi)
        f = e.func
        if isinstance(f, ast.IfExp):
            # (A if c else B)(...): either may be what is called
            subs = []
            for br in (f.body, f.orelse):
                c2 = ast.Call(func=br, args=e.args, keywords=e.keywords)
                ast.copy_location(c2, e)
                r = self.callees(c2, fi, self_cls)
                subs += list(r[1]) if r[0] == "multi" else [r]
            return ("multi", subs)
        if isinstance(f, (ast.Subscript, ast.Call)):
            t0 = self.type_of(f, fi, env)
            if t0[0] == "dictget":
                return self._dictlit_funcs(t0[1], t0[2] if len(t0) > 2 else None, fi)
        if isinstance(f, ast.Name):
            n = f.id
            if n in env:
                t = env[n]
                if t[0] == "funcs":
                    return ("funcs", [self.m.functions[q] for q in t[1]], None)
                if t[0] == "dictget":
                    return self._dictlit_funcs(t[1])
                if t[0] == "method":
                    return self._method_targets(t, None, None, cha_all=True)
                if t[0] == "type":
                    return ("ctor", t[1])
                # a parameter annotated Type[<TypeVar>] (enum conversion helper)
                for a in fi.node.args.posonlyargs + fi.node.args.args + fi.node.args.kwonlyargs:
                    if a.arg == n and a.annotation is not None and "Type[" in norm(a.annotation):
                        return ("builtin", "typevar-ctor", None)
                tg = self._param_callees(fi, n)
                if tg:
                    return ("funcs", tg, None)
                return ("unknown", norm(e))
            q = self.m.resolve_name(fi.module, n)
            if q in self.m.classes:
                return ("ctor", q)
            if q in self.m.functions:
                return ("funcs", [self.m.functions[q]], None)
            return ("builtin", n, None)
        if isinstance(f, ast.Attribute):
            # super().m()
            if isinstance(f.value, ast.Call) and isinstance(f.value.func, ast.Name) and f.value.func.id == "super":
                start = self_cls or fi.cls
                mt = self.m.find_method(start, f.attr, after=fi.cls) if start else None
                if mt is not None:
                    return ("funcs", [mt], f.value)
                return ("builtin", f"super.{f.attr}", None)
            bt = self.strip_opt(self.type_of(f.value, fi, env))
            if bt[0] in ("inst", "type"):
                c = self.m.classes.get(bt[1])
                is_self = isinstance(f.value, ast.Name) and f.value.id in ("self", "cls") and fi.cls is not None
                if c is not None and c.is_enum and bt[0] == "type":
                    return ("builtin", f"enum.{f.attr}", bt)
                at = self.attr_type(bt, f.attr, fi)
                if at[0] == "method":
                    return self._method_targets(at, f.value, self_cls if is_self else None, cha_all=not is_self or self_cls is None)
                # a field holding a callable?
                return ("unknown", norm(e))
            if bt[0] == "prim":
                return ("builtin", f"{bt[1]}.{f.attr}", bt)
            if bt[0] in ("list", "dict", "tuple", "dictlit"):
                return ("builtin", f"{bt[0]}.{f.attr}", bt)
            txt = norm(f)
            q = self.m.resolve_name(fi.module, txt)
            if q in self.m.functions:
                return ("funcs", [self.m.functions[q]], None)
            if q in self.m.classes:
                return ("ctor", q)
            head = txt.split(".")[0]
            if head in ("bytes", "bytearray", "str", "int", "dict", "list") and head not in env:
                return ("builtin", txt, None)
            if head in self.m.modules[fi.module].imports and self.m.modules[fi.module].imports[head] == head or head in ("re", "struct", "base64", "dataclasses", "enum", "int", "object", "t", "typing"):
                return ("builtin", txt, None)
            if bt == UNK and isinstance(f.value, ast.Name) and f.attr not in BUILTIN_METHOD_NAMES:
                # a receiver of unknown type (a value picked by a generic helper): every package class that defines a method of
                # that name and can take this many arguments may be the target (name-based class-hierarchy analysis)
                nargs = len(e.args) + len(e.keywords)
                cands = []
                for cq, c in self.m.classes.items():
                    mt = c.methods.get(f.attr)
                    if mt is None or isinstance(mt.node, ast.Lambda):
                        continue
                    a_ = mt.node.args
                    total = len(a_.posonlyargs) + len(a_.args) + len(a_.kwonlyargs) - (0 if mt.is_staticmethod else 1)
                    required = total - len(a_.defaults) - sum(1 for d in a_.kw_defaults if d is not None)
                    if required <= nargs <= total or a_.vararg or a_.kwarg:
                        cands.append(mt)
                if cands:
                    return ("funcs", cands, f.value)
            return ("unknown", norm(e))
        return ("unknown", norm(e))

    def _dictlit_funcs(self, t, default: Optional[ast.expr] = None, fi: Optional[FuncInfo] = None):
        _, mod, d = t
        fis = []
        ctors = []
        for v in list(d.values) + ([default] if default is not None else []):
            if isinstance(v, (ast.Name, ast.Attribute)):
                q = self.m.resolve_name(mod, norm(v))
                if q in self.m.functions:
                    fis.append(self.m.functions[q])
                    continue
                if q in self.m.classes:
                    ctors.append(q)
                    continue
            if isinstance(v, ast.Lambda):
                q = f"{mod}.<lambda>@{norm(v)[:40]}"
                if q not in self.m.functions:
                    self.m.functions[q] = FuncInfo(q, "<lambda>", mod, None, v, [])
                fis.append(self.m.functions[q])
                continue
            return ("unknown", norm(v))
        if ctors:
            return ("multi", [("ctor", q) for q in ctors] + ([("funcs", fis, None)] if fis else []))
        return ("funcs", fis, None)

    def _method_targets(self, at, recv, self_cls, cha_all: bool):
        owner_t, name = at[1], at[2]
        owner = owner_t[1]
        if self_cls is not None:
            mt = self.m.find_method(self_cls, name)
            return ("funcs", [mt] if mt else [], recv)
        targets = []
        base = self.m.find_method(owner, name)
        if base is not None:
            targets.append(base)
        if cha_all:
            for sub in self.m.subclasses(owner, strict=True):
                mt = self.m.find_method(sub, name)
                if mt is not None and mt not in targets:
                    targets.append(mt)
        return ("funcs", targets, recv)
