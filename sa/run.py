#!/venv/bin/python
"""Entry point: run.py <Cxx> [--tier quick|thorough]

Static analysis only: parses /repo/src/sansldap on every run, never imports
or executes it. Exit 0 = property's decided clauses held; 1 = VIOLATION line
printed; 2 = ANALYSIS-ERROR (the analysis could not reach a verdict).
"""
from __future__ import annotations

import argparse
import importlib
import os
import sys
import traceback

HERE = os.path.dirname(os.path.abspath(__file__))
sys.path.insert(0, os.path.dirname(HERE))

from sa.report import Run, analysis_error  # noqa: E402
from sa.srcmodel import AnalysisError, Model  # noqa: E402


def main() -> int:
    if os.environ.get("PYTHONHASHSEED") != "0":
        # deterministic set/dict iteration order: the verdict never depends on it, the report order does
        os.environ["PYTHONHASHSEED"] = "0"
        os.execv(sys.executable, [sys.executable] + sys.argv)
    sys.setrecursionlimit(20000)
    ap = argparse.ArgumentParser()
    ap.add_argument("prop")
    ap.add_argument("--tier", default=os.environ.get("VERIF_TIER", "quick"), choices=["quick", "thorough"])
    ap.add_argument("--repo", default=os.environ.get("SANSLDAP_REPO", "/repo"))
    args = ap.parse_args()
    prop = args.prop.upper()
    try:
        mod = importlib.import_module(f"sa.props.{prop.lower()}")
    except ModuleNotFoundError:
        return analysis_error(prop, args.tier, "no checker registered for this property")
    try:
        model = Model(args.repo)
        run = Run(prop, args.tier)
        mod.check(model, run)
        return run.finish(model)
    except AnalysisError as e:
        return analysis_error(prop, args.tier, str(e))
    except Exception as e:  # a traceback must never look like a violation
        traceback.print_exc()
        return analysis_error(prop, args.tier, f"internal error {type(e).__name__}: {e}")


if __name__ == "__main__":
    rc = main()
    sys.stdout.flush()
    os._exit(rc)
