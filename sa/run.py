#!/venv/bin/python
"""Entry point: run.py <Cxx> [--tier quick|thorough]

Static analysis only: parses /repo/src/sansldap on every run, never imports
or executes it. Exit 0 = property's decided clauses held; 1 = VIOLATION line
printed; 2 = ANALYSIS-ERROR (the analysis could not reach a verdict).
"""
from __future__ import annotations

import argparse
import importlib
import os
import sys
import traceback

HERE = os.path.dirname(os.path.abspath(__file__))
sys.path.insert(0, os.path.dirname(HERE))

from sa.report import Run, analysis_error  # noqa: E402
from sa.srcmodel import AnalysisError, Model  # noqa: E402


def _variant(job):
    """Apply one seeded patch to a scratch copy of the working tree and run the check on it."""
    import shutil
    import subprocess
    import tempfile
    prop, repo, seed_dir = job
    scratch = tempfile.mkdtemp(prefix="sa-selftest-")
    try:
        shutil.copytree(os.path.join(repo, "src"), os.path.join(scratch, "src"))
        # only the library source is copied: the part of a patch that touches tests/ (a variant that ships its own test) is left out
        p = subprocess.run(["git", "apply", "--include=src/*", os.path.join(seed_dir, "patch.diff")], cwd=scratch, capture_output=True, text=True)
        if p.returncode != 0:
            return os.path.basename(seed_dir), "patch does not apply to the current tree", None
        env = dict(os.environ, VERIF_EVIDENCE_DIR=os.path.join(scratch, "_ev"), VERIF_NO_SELFTEST="1", PYTHONHASHSEED="0")
        q = subprocess.run([sys.executable, os.path.abspath(__file__), prop, "--tier", "quick", "--repo", scratch], capture_output=True, text=True, env=env, cwd=os.path.dirname(HERE))
        rules = sorted({l.split(":")[0].replace("  rule ", "") for l in q.stdout.splitlines() if l.startswith("  rule ")})
        return os.path.basename(seed_dir), q.returncode, rules
    finally:
        shutil.rmtree(scratch, ignore_errors=True)


def selftest(prop: str, repo: str, run: Run) -> None:
    """Thorough tier: the checker is exercised on every seeded variant recorded for this property (breaking
    variants it is expected to report, behaviour-preserving variants it must stay silent on), each applied to a
    scratch copy of the CURRENT working tree. The result measures the checker, not the property: it is written
    to the evidence and never changes the verdict on the tree."""
    import json
    from concurrent.futures import ThreadPoolExecutor
    seeded = os.path.join(os.path.dirname(HERE), "seeded")
    jobs = []
    expect = {}
    if os.path.isdir(seeded):
        for d in sorted(os.listdir(seeded)):
            mp = os.path.join(seeded, d, "meta.json")
            if not os.path.exists(mp) or not os.path.exists(os.path.join(seeded, d, "patch.diff")):
                continue
            meta = json.load(open(mp))
            if d.startswith(("benign", "B-", "B3-", "B4-", "B5-", "B6-", "B7-", "B8-", "B9-", "B10-", "B11-")):
                # behaviour-preserving: silent, or - for the few variants recorded as outside what the extractor follows - exit 2
                expect[d] = "analysis-error" if prop in meta.get("analysis_errors", {}) else "silent"
                jobs.append((prop, repo, os.path.join(seeded, d)))
            elif prop in meta.get("detected_by", {}):
                expect[d] = "report"
                jobs.append((prop, repo, os.path.join(seeded, d)))
    with ThreadPoolExecutor(max_workers=12) as ex:
        results = list(ex.map(_variant, jobs))
    ok = bad = skipped = 0
    rows = []
    for name, rc, rules in results:
        if rules is None:
            skipped += 1
            rows.append({"variant": name, "result": rc})
            continue
        want = expect[name]
        good = (rc == 1) if want == "report" else (rc == 2) if want == "analysis-error" else (rc == 0)
        ok += good
        bad += (not good)
        rows.append({"variant": name, "expected": want, "exit": rc, "rules": rules[:4], "as_expected": good})
    run.coverage["checker_selftest"] = {"variants": len(jobs), "as_expected": ok, "unexpected": bad, "skipped": skipped, "rows": rows}
    if bad:
        run.note(f"checker self-test: {bad} variant(s) did not behave as recorded: " + ", ".join(r["variant"] for r in rows if r.get("as_expected") is False))
    print(f"[{prop}] checker self-test on seeded variants: {ok} as expected, {bad} unexpected, {skipped} skipped")


def main() -> int:
    if os.environ.get("PYTHONHASHSEED") != "0":
        # deterministic set/dict iteration order: the verdict never depends on it, the report order does
        os.environ["PYTHONHASHSEED"] = "0"
        os.execv(sys.executable, [sys.executable] + sys.argv)
    sys.setrecursionlimit(20000)
    ap = argparse.ArgumentParser()
    ap.add_argument("prop")
    ap.add_argument("--tier", default=os.environ.get("VERIF_TIER", "quick"), choices=["quick", "thorough"])
    ap.add_argument("--repo", default=os.environ.get("SANSLDAP_REPO", "/repo"))
    args = ap.parse_args()
    prop = args.prop.upper()
    try:
        mod = importlib.import_module(f"sa.props.{prop.lower()}")
    except ModuleNotFoundError:
        return analysis_error(prop, args.tier, "no checker registered for this property")
    run = None
    model = None
    try:
        model = Model(args.repo)
        run = Run(prop, args.tier)
        mod.check(model, run)
        if args.tier == "thorough" and not os.environ.get("VERIF_NO_SELFTEST"):
            selftest(prop, args.repo, run)
        return run.finish(model)
    except AnalysisError as e:
        # rules that had already reached a verdict keep it: a violation found before the analysis met a shape it cannot
        # follow is still a violation (the rest of the check is recorded as not carried out)
        if run is not None and model is not None and run.unlisted_findings():
            run.note(f"analysis stopped early, remaining rules not evaluated: {e}")
            print(f"ANALYSIS-INCOMPLETE property={prop}: {e}")
            return run.finish(model)
        return analysis_error(prop, args.tier, str(e))
    except Exception as e:  # a traceback must never look like a violation
        traceback.print_exc()
        return analysis_error(prop, args.tier, f"internal error {type(e).__name__}: {e}")


if __name__ == "__main__":
    rc = main()
    sys.stdout.flush()
    os._exit(rc)
