"""Forward must-dataflow of guard facts over structured Python statements.

Facts are tuples; `facts_at[id(node)]` gives the set holding on entry to a
simple statement or when a sub-expression is evaluated (short-circuit context
included).  Every fact mentions expression *texts*; it is killed as soon as
any name it mentions is assigned, or the object it describes is mutated.

Fact forms
  ("T", x)            x is truthy (non-empty / not None / non-zero)
  ("NN", x)           x is not None
  ("LEN>=", x, k)     len(x) >= k            (k is an expression text)
  ("LEN==", x, k)
  ("IDX", i, x)       0 <= i < len(x)
  ("LT", a, b)        a < b                  (texts)
  ("LE", a, b)
  ("GE0", i)          i >= 0
  ("IN", k, s)        k in s
  ("NE", x, c)  ("EQ", x, c)
  ("ELEM", v, a, i)   v == a[i]
  ("INT", x, lo, hi)  lo <= x <= hi          (integer literals)
"""
from __future__ import annotations

import ast
from typing import Dict, FrozenSet, List, Optional, Set, Tuple

from .srcmodel import norm

Fact = tuple
MUTATORS = {"append", "extend", "insert", "pop", "remove", "clear", "reverse", "sort", "add", "discard", "update", "popitem", "setdefault"}
LEN_PRESERVING = {"reverse", "sort"}
LEN_PRESERVING_CTORS = {"bytearray", "bytes", "memoryview", "list", "tuple"}


def names_in(text_or_node) -> Set[str]:
    node = text_or_node
    if isinstance(node, str):
        try:
            node = ast.parse(node, mode="eval").body
        except SyntaxError:
            return set()
    return {n.id for n in ast.walk(node) if isinstance(n, ast.Name)}


def fact_names(f: Fact) -> Set[str]:
    out: Set[str] = set()
    for part in f[1:]:
        if isinstance(part, str):
            out |= names_in(part)
        elif isinstance(part, frozenset):
            for g in part:
                out |= fact_names(g)
    return out


def resolve_or(facts: FrozenSet[Fact]) -> FrozenSet[Fact]:
    """Unit resolution on OR facts: if one alternative is contradicted by a live fact, the other holds."""
    out = set(facts)
    changed = True
    while changed:
        changed = False
        for f in list(out):
            if f[0] != "OR":
                continue
            for a, b in ((f[1], f[2]), (f[2], f[1])):
                if any(contradicts(g, out) for g in a) and not b <= out:
                    out |= b
                    changed = True
    return frozenset(out)


def contradicts(g: Fact, facts) -> bool:
    if g[0] == "EQ":
        if ("NE", g[1], g[2]) in facts:
            return True
        # x == c contradicted by x == d (different constants)
        for h in facts:
            if h[0] == "EQ" and h[1] == g[1] and h[2] != g[2] and _lit(h[2]) and _lit(g[2]):
                return True
        if _lit(g[2]) and g[2] != "None" and ("EQ", g[1], "None") in facts:
            return True
    if g[0] == "NE" and ("EQ", g[1], g[2]) in facts:
        return True
    if g[0] == "T" and ("EQ", g[1], "None") in facts:
        return True
    return False


def _lit(t: str) -> bool:
    try:
        ast.literal_eval(t)
        return True
    except Exception:
        return False


def const_int(e: ast.expr) -> Optional[int]:
    if isinstance(e, ast.Constant) and isinstance(e.value, int) and not isinstance(e.value, bool):
        return e.value
    if isinstance(e, ast.UnaryOp) and isinstance(e.op, ast.USub) and isinstance(e.operand, ast.Constant) and isinstance(e.operand.value, int):
        return -e.operand.value
    return None


def always_exits(stmts: List[ast.stmt]) -> bool:
    if not stmts:
        return False
    s = stmts[-1]
    if isinstance(s, (ast.Raise, ast.Return, ast.Continue, ast.Break)):
        return True
    if isinstance(s, ast.If):
        return always_exits(s.body) and always_exits(s.orelse)
    return False


class FactFlow:
    def __init__(self, func_node: ast.AST, param_types: Optional[Dict[str, tuple]] = None, ival=None, nn_call=None, ret_nonneg=None, init_facts=None, pred_inline=None,
                 ret_facts=None):
        self.node = func_node
        self.ret_facts = ret_facts
        self.pred_inline = pred_inline
        self.facts_at: Dict[int, FrozenSet[Fact]] = {}
        self.types = param_types or {}
        self.ival = ival
        self.nn_call = nn_call
        self.ret_nonneg = ret_nonneg
        self.loops: List[dict] = []
        body = func_node.body if not isinstance(func_node, ast.Lambda) else []
        init: Set[Fact] = set(init_facts or ())
        self.flow(body, frozenset(init))

    # ------------------------------------------------------------------ assume
    def assume(self, c: ast.expr, truth: bool) -> Set[Fact]:
        out: Set[Fact] = set()
        if isinstance(c, ast.UnaryOp) and isinstance(c.op, ast.Not):
            return self.assume(c.operand, not truth)
        if isinstance(c, ast.BoolOp):
            if isinstance(c.op, ast.And) and truth:
                for v in c.values:
                    out |= self.assume(v, True)
            elif isinstance(c.op, ast.Or) and not truth:
                for v in c.values:
                    out |= self.assume(v, False)
            elif len(c.values) == 2:
                # not (A and B)  ==  (not A) or (not B);   (A or B) true  ==  A or B
                neg = isinstance(c.op, ast.And)
                alts = []
                for v in c.values:
                    alts.append(frozenset(self.assume(v, not neg)))
                if all(alts):
                    out.add(("OR", alts[0], alts[1]))
            return out
        if isinstance(c, ast.Compare) and len(c.ops) == 1:
            op, a, b = c.ops[0], c.left, c.comparators[0]
            ta, tb = norm(a), norm(b)
            if isinstance(op, (ast.Is, ast.IsNot)) and isinstance(b, ast.Constant) and b.value is None:
                if isinstance(op, ast.IsNot) == truth:
                    out.add(("NN", ta))
                return out
            if isinstance(op, (ast.In, ast.NotIn)):
                if isinstance(op, ast.In) == truth:
                    out.add(("IN", ta, tb))
                    out.add(("T", tb))
                return out
            # normalise to a < b / a <= b / a == b / a != b under `truth`
            rel = None
            if isinstance(op, ast.Lt):
                rel = ("LT", ta, tb) if truth else ("LE", tb, ta)
            elif isinstance(op, ast.LtE):
                rel = ("LE", ta, tb) if truth else ("LT", tb, ta)
            elif isinstance(op, ast.Gt):
                rel = ("LT", tb, ta) if truth else ("LE", ta, tb)
            elif isinstance(op, ast.GtE):
                rel = ("LE", tb, ta) if truth else ("LT", ta, tb)
            elif isinstance(op, ast.Eq):
                rel = ("EQ", ta, tb) if truth else ("NE", ta, tb)
            elif isinstance(op, ast.NotEq):
                rel = ("NE", ta, tb) if truth else ("EQ", ta, tb)
            if rel is not None:
                out.add(rel)
                out |= self.derive_len(rel, a, b)
            return out
        if isinstance(c, ast.Call) and isinstance(c.func, ast.Name) and c.func.id == "len" and len(c.args) == 1:
            if truth:
                out.add(("T", norm(c.args[0])))
                out.add(("LEN>=", norm(c.args[0]), "1"))
            return out
        if isinstance(c, ast.Call) and isinstance(c.func, ast.Name) and c.func.id == "isinstance":
            # an instance of a named class is not None
            if truth and len(c.args) == 2 and "None" not in norm(c.args[1]):
                out.add(("NN", norm(c.args[0])))
            return out
        if isinstance(c, ast.Call) and self.pred_inline is not None:
            # a one-expression predicate helper: what its result tells about its arguments
            body = self.pred_inline(c)
            if body is not None:
                out |= self.assume(body, truth)
        if truth:
            t = norm(c)
            out.add(("T", t))
            out.add(("NN", t))
        return out

    def derive_len(self, rel: Fact, a: ast.expr, b: ast.expr) -> Set[Fact]:
        """LEN facts from relations mentioning len(x)."""
        out: Set[Fact] = set()

        def len_arg(e):
            if isinstance(e, ast.Call) and isinstance(e.func, ast.Name) and e.func.id == "len" and len(e.args) == 1:
                return norm(e.args[0])
            return None
        kind, ta, tb = rel
        ea = ast.parse(ta, mode="eval").body
        eb = ast.parse(tb, mode="eval").body
        la, lb = len_arg(ea), len_arg(eb)
        if kind == "LT":
            if lb is not None:          # a < len(x)
                out.add(("LTLEN", ta, lb))
                out.add(("T", lb))
            if la is not None:          # len(x) < b : nothing useful
                pass
        elif kind == "LE":
            if la is None and lb is not None:      # a <= len(x)
                out.add(("LEN>=", lb, strip(ta)))
            # k <= len(x) from  not (len(x) < k)
        elif kind == "EQ":
            if la is not None:
                out.add(("LEN==", la, strip(tb)))
            if lb is not None:
                out.add(("LEN==", lb, strip(ta)))
        elif kind == "NE":
            if la is not None and strip(tb) == "0":
                out.add(("T", la))
                out.add(("LEN>=", la, "1"))
            if lb is not None and strip(ta) == "0":
                out.add(("T", lb))
                out.add(("LEN>=", lb, "1"))
        if kind == "LT" and la is None and lb is not None and strip(ta).lstrip("-").isdigit() and int(strip(ta)) >= 0:
            out.add(("LEN>=", lb, str(int(strip(ta)) + 1)))        # c < len(x)
            out.add(("T", lb))
        if kind == "LE" and la is None and lb is not None and strip(ta).lstrip("-").isdigit() and int(strip(ta)) >= 1:
            out.add(("T", lb))
        return out

    # ------------------------------------------------------------------ kills
    @staticmethod
    def kill(facts: FrozenSet[Fact], names: Set[str], mutated: Set[str] = frozenset(), elem_mutated: Set[str] = frozenset()) -> FrozenSet[Fact]:
        if not names and not mutated and not elem_mutated:
            return facts
        out = set()
        for f in facts:
            fn = fact_names(f)
            if fn & names:
                continue
            if mutated and f[0] != "NN":
                # length/content facts about mutated objects die (None-ness is unaffected)
                subj = [p for p in f[1:] if isinstance(p, str)]
                if any(names_in(s) & mutated for s in subj):
                    continue
            if elem_mutated and f[0] in ("ELEM",) and names_in(f[2]) & elem_mutated:
                continue
            out.add(f)
        return frozenset(out)

    @staticmethod
    def assigned_names(stmts: List[ast.stmt]) -> Tuple[Set[str], Set[str], Set[str]]:
        names: Set[str] = set()
        mutated: Set[str] = set()
        elem: Set[str] = set()
        for s in stmts:
            for n in ast.walk(s):
                if isinstance(n, ast.Name) and isinstance(n.ctx, (ast.Store, ast.Del)):
                    names.add(n.id)
                elif isinstance(n, ast.Call) and isinstance(n.func, ast.Attribute) and n.func.attr in MUTATORS:
                    if n.func.attr not in LEN_PRESERVING:
                        mutated |= names_in(n.func.value)
                    elem |= names_in(n.func.value)
                elif isinstance(n, ast.Subscript) and isinstance(n.ctx, (ast.Store, ast.Del)):
                    elem |= names_in(n.value)
                    if isinstance(n.ctx, ast.Del) or isinstance(n.slice, ast.Slice):
                        mutated |= names_in(n.value)
                elif isinstance(n, ast.Attribute) and isinstance(n.ctx, (ast.Store, ast.Del)):
                    # self._view = ... : facts about that attribute text die via names? they mention `self`; kill by text
                    names.add("@" + norm(n))
        return names, mutated, elem

    def kill_stmt(self, facts: FrozenSet[Fact], s: ast.stmt) -> FrozenSet[Fact]:
        names, mutated, elem = self.assigned_names([s])
        attr_texts = {n[1:] for n in names if n.startswith("@")}
        names = {n for n in names if not n.startswith("@")}
        out = self.kill(facts, names, mutated, elem)
        if attr_texts:
            out = frozenset(f for f in out if not any(isinstance(p, str) and any(a in p for a in attr_texts) for p in f[1:]))
        return out

    # ------------------------------------------------------------------ flow
    def record_expr(self, e: ast.expr, facts: FrozenSet[Fact]) -> None:
        """Record facts for every sub-expression, adding short-circuit context."""
        if e is None:
            return
        self.facts_at[id(e)] = facts
        if isinstance(e, ast.BoolOp):
            cur = facts
            for v in e.values:
                self.record_expr(v, cur)
                cur = cur | frozenset(self.assume(v, isinstance(e.op, ast.And)))
            return
        if isinstance(e, ast.IfExp):
            self.record_expr(e.test, facts)
            self.record_expr(e.body, facts | frozenset(self.assume(e.test, True)))
            self.record_expr(e.orelse, facts | frozenset(self.assume(e.test, False)))
            return
        if isinstance(e, (ast.ListComp, ast.SetComp, ast.GeneratorExp, ast.DictComp)):
            cur = facts
            for g in e.generators:
                self.record_expr(g.iter, cur)
                cur = cur | frozenset(self.loop_facts(g.target, g.iter))
                for c in g.ifs:
                    self.record_expr(c, cur)
                    cur = cur | frozenset(self.assume(c, True))
            if isinstance(e, ast.DictComp):
                self.record_expr(e.key, cur)
                self.record_expr(e.value, cur)
            else:
                self.record_expr(e.elt, cur)
            return
        if isinstance(e, ast.Lambda):
            return
        for ch in ast.iter_child_nodes(e):
            if isinstance(ch, ast.expr):
                self.record_expr(ch, facts)
            elif isinstance(ch, (ast.keyword,)):
                self.record_expr(ch.value, facts)
            elif isinstance(ch, ast.Slice):
                for x in (ch.lower, ch.upper, ch.step):
                    if x is not None:
                        self.record_expr(x, facts)

    def gen_assign(self, s: ast.stmt, facts: FrozenSet[Fact]) -> FrozenSet[Fact]:
        """Facts generated by an assignment / expression statement (after kills)."""
        out = set(facts)
        if isinstance(s, (ast.Assign, ast.AnnAssign)) and getattr(s, "value", None) is not None:
            tgts = s.targets if isinstance(s, ast.Assign) else [s.target]
            v = s.value
            for t in tgts:
                if not isinstance(t, ast.Name):
                    continue
                tn = t.id
                ci = const_int(v)
                if ci is not None:
                    out.add(("INT", tn, ci, ci))
                    if ci >= 0:
                        out.add(("GE0", tn))
                    out.add(("EQ", tn, str(ci)))
                elif self.ival is not None and (isinstance(v, (ast.BinOp, ast.IfExp, ast.Subscript, ast.Name)) or (isinstance(v, ast.Call) and isinstance(v.func, ast.Name) and v.func.id != "len")):
                    lo, hi = self.ival(v, self._pre)
                    if lo != float("-inf") or hi != float("inf"):
                        out.add(("INT", tn, lo, hi))
                    if lo != float("-inf") and lo >= 0:
                        out.add(("GE0", tn))
                if isinstance(v, ast.BinOp) and isinstance(v.op, ast.Sub):
                    # exact definition  tn = len(x) - r   (used by the window rule i + r < len(x))
                    l_, r_ = v.left, v.right
                    if isinstance(l_, ast.Call) and isinstance(l_.func, ast.Name) and l_.func.id == "len" and len(l_.args) == 1 and isinstance(r_, ast.Name) and r_.id != tn:
                        out.add(("DEFLENSUB", tn, norm(l_.args[0]), r_.id))
                    # exact definition  tn = len(x) - c  with a literal c >= 1: whenever tn >= 0 it is a valid index of x
                    if isinstance(l_, ast.Call) and isinstance(l_.func, ast.Name) and l_.func.id == "len" and len(l_.args) == 1 and (const_int(r_) or 0) >= 1 \
                            and isinstance(l_.args[0], (ast.Name, ast.Attribute)):
                        out.add(("LENMINUS", tn, norm(l_.args[0]), const_int(r_)))
                if isinstance(v, ast.Call) and isinstance(v.func, ast.Attribute) and v.func.attr in ("find", "rfind") and isinstance(v.func.value, ast.Name) and \
                        v.args and isinstance(v.args[0], ast.Constant) and isinstance(v.args[0].value, (str, bytes)) and len(v.args[0].value) >= 1 and \
                        v.func.value.id != tn:
                    # tn = x.find(<non-empty literal>[, start[, end]]): either -1 or a valid index of x  (str / bytes / bytearray: the only classes with find)
                    out.add(("IDXM1", tn, v.func.value.id))
                    out.add(("INT", tn, -1, float("inf")))
                if isinstance(v, ast.Constant) and (v.value is None or isinstance(v.value, str)):
                    out.add(("EQ", tn, repr(v.value)))
                if isinstance(v, ast.Call) and self.nn_call is not None and self.nn_call(v):
                    out.add(("NN", tn))
                if isinstance(v, (ast.List, ast.Dict, ast.Tuple, ast.Set, ast.JoinedStr, ast.ListComp, ast.DictComp)) or \
                        (isinstance(v, ast.Constant) and v.value is not None):
                    out.add(("NN", tn))
                if isinstance(v, ast.Call) and isinstance(v.func, ast.Name) and v.func.id in LEN_PRESERVING_CTORS and len(v.args) == 1:
                    src = norm(v.args[0])
                    for f in facts:
                        if f[0] in ("T", "LEN>=", "LEN==") and f[1] == src:
                            out.add((f[0], tn) + tuple(f[2:]))
                    out.add(("SAMELEN", tn, src))
                if isinstance(v, ast.Call) and isinstance(v.func, ast.Name) and v.func.id == "len" and len(v.args) == 1:
                    out.add(("GE0", tn))
                    out.add(("ISLEN", tn, norm(v.args[0])))
                if isinstance(v, ast.Call) and isinstance(v.func, ast.Attribute) and v.func.attr in ("split", "rsplit") :
                    out.add(("T", tn))
                    out.add(("LEN>=", tn, "1"))
                if isinstance(v, ast.Call) and isinstance(v.func, ast.Name) and v.func.id == "list" and len(v.args) == 1:
                    a0 = v.args[0]
                    if isinstance(a0, ast.Call) and isinstance(a0.func, ast.Attribute) and a0.func.attr in ("split", "rsplit"):
                        out.add(("T", tn))
                        out.add(("LEN>=", tn, "1"))
                if isinstance(v, ast.Name):
                    src = v.id
                    for f in facts:
                        if f[0] in ("T", "NN", "LEN>=", "GE0", "INT") and f[1] == src:
                            out.add((f[0], tn) + tuple(f[2:]))
                        if f[0] == "IDX" and f[1] == src:
                            out.add(("IDX", tn, f[2]))
                            out.add(("INT", tn, 0, float("inf")))
                            out.add(("GE0", tn))
                if isinstance(v, (ast.List, ast.Tuple)) and v.elts:
                    out.add(("T", tn))
                    out.add(("LEN>=", tn, str(len(v.elts))))
                if isinstance(v, ast.Constant) and isinstance(v.value, (str, bytes)) and v.value:
                    out.add(("T", tn))
        if isinstance(s, ast.Assign) and len(s.targets) == 1 and isinstance(s.targets[0], ast.Tuple) and isinstance(s.value, ast.Call) and self.ret_facts is not None \
                and all(isinstance(el, ast.Name) for el in s.targets[0].elts):
            # what the helper knows about the values it returns, in terms of the names they are unpacked into
            for f in self.ret_facts(s.value, [el.id for el in s.targets[0].elts]):
                out.add(f)
        if isinstance(s, ast.Assign) and len(s.targets) == 1 and isinstance(s.targets[0], ast.Tuple) and isinstance(s.value, ast.Call) and self.ret_nonneg is not None:
            for i, el in enumerate(s.targets[0].elts):
                if isinstance(el, ast.Name) and self.ret_nonneg(s.value, i):
                    out.add(("GE0", el.id))
                    out.add(("INT", el.id, 0, float("inf")))
        # LELEN(v, x): v <= len(x).  v = i + 1 / v += i + 1 (v == 0 before) with i a valid index of x; consumed by w = len(x) - v.
        def _idx_plus_one(e: ast.expr) -> Optional[str]:
            if isinstance(e, ast.BinOp) and isinstance(e.op, ast.Add):
                for a, b in ((e.left, e.right), (e.right, e.left)):
                    if isinstance(a, ast.Name) and const_int(b) == 1:
                        i = a.id
                        for f in self._pre:
                            if f[0] == "IDX" and f[1] == i:
                                return f[2]
                            if f[0] == "IDXM1" and f[1] == i and (("NE", i, "-1") in self._pre or any(g[0] == "INT" and g[1] == i and g[2] >= 0 for g in self._pre)):
                                return f[2]
            return None
        if isinstance(s, ast.Assign) and len(s.targets) == 1 and isinstance(s.targets[0], ast.Name):
            x_ = _idx_plus_one(s.value)
            if x_ is not None:
                out.add(("LELEN", s.targets[0].id, x_))
            v = s.value
            if isinstance(v, ast.BinOp) and isinstance(v.op, ast.Sub) and isinstance(v.left, ast.Call) and isinstance(v.left.func, ast.Name) and v.left.func.id == "len" \
                    and len(v.left.args) == 1 and isinstance(v.right, ast.Name) and ("LELEN", v.right.id, norm(v.left.args[0])) in self._pre:
                out.add(("GE0", s.targets[0].id))
                out.add(("INT", s.targets[0].id, 0, float("inf")))
        if isinstance(s, ast.AugAssign) and isinstance(s.target, ast.Name) and isinstance(s.op, ast.Add) and ("EQ", s.target.id, "0") in self._pre:
            x_ = _idx_plus_one(s.value)
            if x_ is not None:
                out.add(("LELEN", s.target.id, x_))
        if isinstance(s, ast.AugAssign) and isinstance(s.target, ast.Name) and self.ival is not None:
            lo, hi = self.ival(ast.BinOp(left=ast.Name(id=s.target.id, ctx=ast.Load()), op=s.op, right=s.value), self._pre)
            if lo != float("-inf") or hi != float("inf"):
                out.add(("INT", s.target.id, lo, hi))
            if lo >= 0:
                out.add(("GE0", s.target.id))
        if isinstance(s, ast.AugAssign) and isinstance(s.target, ast.Name):
            tn = s.target.id
            # x += <non-negative> keeps GE0 (checked against the facts before the kill)
            if isinstance(s.op, ast.Add) and ("GE0", tn) in self._pre and self.nonneg(s.value, self._pre):
                out.add(("GE0", tn))
        if isinstance(s, ast.Expr) and isinstance(s.value, ast.Call) and isinstance(s.value.func, ast.Attribute):
            c = s.value
            if c.func.attr in ("append", "add"):
                out.add(("T", norm(c.func.value)))
                out.add(("LEN>=", norm(c.func.value), "1"))
                if c.func.attr == "add" and len(c.args) == 1:
                    out.add(("IN", norm(c.args[0]), norm(c.func.value)))
        return frozenset(out)

    def nonneg(self, e: ast.expr, facts: FrozenSet[Fact]) -> bool:
        ci = const_int(e)
        if ci is not None:
            return ci >= 0
        if self.ival is not None:
            lo, _hi = self.ival(e, facts)
            if lo >= 0:
                return True
        if isinstance(e, ast.Name):
            return ("GE0", e.id) in facts or any(f[0] == "IDX" and f[1] == e.id for f in facts) or any(f[0] == "INT" and f[1] == e.id and f[2] >= 0 for f in facts)
        if isinstance(e, ast.Call) and isinstance(e.func, ast.Name) and e.func.id == "len":
            return True
        if isinstance(e, ast.BinOp) and isinstance(e.op, (ast.Add, ast.Mult)):
            return self.nonneg(e.left, facts) and self.nonneg(e.right, facts)
        return False

    def loop_facts(self, target: ast.expr, it: ast.expr) -> Set[Fact]:
        out: Set[Fact] = set()
        if isinstance(it, ast.Call) and isinstance(it.func, ast.Name) and it.func.id == "reversed" and len(it.args) == 1 and not it.keywords and \
                isinstance(it.args[0], ast.Call) and isinstance(it.args[0].func, ast.Name) and it.args[0].func.id == "range":
            return self.loop_facts(target, it.args[0])        # the same values in the other order: the same bounds
        if isinstance(it, ast.Call) and isinstance(it.func, ast.Name):
            if it.func.id == "range" and isinstance(target, ast.Name):
                i = target.id
                args = it.args
                if len(args) == 1:
                    out.add(("GE0", i))
                    out.add(("LT", i, norm(args[0])))
                    la = args[0]
                    if isinstance(la, ast.Call) and isinstance(la.func, ast.Name) and la.func.id == "len" and len(la.args) == 1:
                        out.add(("IDX", i, norm(la.args[0])))
                        out.add(("T", norm(la.args[0])))
                elif len(args) >= 2:
                    step = const_int(args[2]) if len(args) == 3 else 1
                    lo, hi = args[0], args[1]
                    if step is not None and step > 0:
                        out.add(("LE", norm(lo), i))
                        out.add(("LT", i, norm(hi)))
                        cl = const_int(lo)
                        if cl is not None and cl >= 0:
                            out.add(("GE0", i))
                        if isinstance(hi, ast.Call) and isinstance(hi.func, ast.Name) and hi.func.id == "len" and cl is not None and cl >= 0:
                            out.add(("IDX", i, norm(hi.args[0])))
                        if isinstance(hi, ast.Call) and isinstance(hi.func, ast.Name) and hi.func.id == "len" and len(hi.args) == 1:
                            out.add(("LTLEN", i, norm(hi.args[0])))      # i < len(x); whether i >= 0 depends on the lower bound (LE fact above)
                    elif step is not None and step < 0:
                        # range(len(x) - 1, -1, -1)
                        ch = const_int(hi)
                        if ch is not None and ch >= -1:
                            out.add(("GE0", i))
                        out.add(("LE", i, norm(lo)))
                        if isinstance(lo, ast.BinOp) and isinstance(lo.op, ast.Sub) and const_int(lo.right) is not None and const_int(lo.right) >= 1:
                            ll = lo.left
                            if isinstance(ll, ast.Call) and isinstance(ll.func, ast.Name) and ll.func.id == "len" and ch is not None and ch >= -1:
                                out.add(("IDX", i, norm(ll.args[0])))
                                out.add(("T", norm(ll.args[0])))
            elif it.func.id == "enumerate" and isinstance(target, ast.Tuple) and len(target.elts) == 2 and len(it.args) == 1:
                i, v = target.elts
                if isinstance(i, ast.Name) and isinstance(v, ast.Name):
                    a = norm(it.args[0])
                    out.add(("IDX", i.id, a))
                    out.add(("GE0", i.id))
                    out.add(("ELEM", v.id, a, i.id))
                    out.add(("T", a))
        return out

    def flow(self, stmts: List[ast.stmt], facts: FrozenSet[Fact]) -> FrozenSet[Fact]:
        for s in stmts:
            facts = self.flow_stmt(s, facts)
        return facts

    def flow_stmt(self, s: ast.stmt, facts: FrozenSet[Fact]) -> FrozenSet[Fact]:
        self.facts_at[id(s)] = facts
        self._pre = facts
        if isinstance(s, (ast.Assign, ast.AnnAssign, ast.AugAssign, ast.Expr, ast.Delete)):
            for ch in ast.iter_child_nodes(s):
                if isinstance(ch, ast.expr):
                    self.record_expr(ch, facts)
            out = self.kill_stmt(facts, s)
            return self.gen_assign(s, out)
        if isinstance(s, (ast.Return, ast.Raise)):
            for ch in ast.iter_child_nodes(s):
                if isinstance(ch, ast.expr):
                    self.record_expr(ch, facts)
            return facts
        if isinstance(s, ast.If):
            self.record_expr(s.test, facts)
            ft = self.flow(s.body, facts | frozenset(self.assume(s.test, True)))
            ff = self.flow(s.orelse, facts | frozenset(self.assume(s.test, False)))
            et, ef = always_exits(s.body), always_exits(s.orelse)
            if et and ef:
                return frozenset()
            if et:
                return ff
            if ef:
                return ft
            return merge(ft, ff)
        if isinstance(s, (ast.While, ast.For)):
            is_for = isinstance(s, ast.For)
            if is_for:
                self.record_expr(s.iter, facts)
            tnames = {n.id for n in ast.walk(s.target) if isinstance(n, ast.Name)} if is_for else set()
            names, mutated, elem = self.assigned_names(s.body)
            pnames = {n for n in names if not n.startswith("@")}
            fin = self.kill(facts, tnames)
            lf: Set[Fact] = set()
            if is_for:
                lf = {f for f in self.loop_facts(s.target, s.iter)}
                # the iterable is evaluated once: a loop fact survives unless a name it mentions is
                # reassigned on a path that reaches the next iteration
                back = backedge_assigned(s.body)
                lf = {f for f in lf if not (names_in(f[-1] if f[0] != "ELEM" else f[2]) & (mutated | (back - tnames)))}
            exit_breaks: List[FrozenSet[Fact]] = []
            for _it in range(6):
                frame = {"breaks": [], "continues": []}
                self.loops.append(frame)
                if not is_for:
                    self.record_expr(s.test, fin)
                    body_in = fin | frozenset(self.assume(s.test, True))
                else:
                    body_in = self.kill(fin, tnames) | frozenset(lf)
                body_out = self.flow(s.body, body_in)
                self.loops.pop()
                backs = list(frame["continues"])
                if not always_exits(s.body):
                    backs.append(body_out)
                new_fin = fin
                for bk in backs:
                    # facts that hold again when the next iteration starts (loop-variable facts are re-established by the header)
                    new_fin = merge(new_fin, self.kill(bk, tnames))
                exit_breaks = frame["breaks"]
                if new_fin == fin:
                    break
                fin = new_fin
            out = fin
            if not is_for:
                out = out | frozenset(self.assume(s.test, False))
            if s.orelse:
                out = self.flow(s.orelse, out)
            for bf in exit_breaks:
                out = merge(out, bf)
            return out
        if isinstance(s, ast.Try):
            body_out = self.flow(s.body, facts)
            names, mutated, elem = self.assigned_names(s.body)
            hbase = self.kill(facts, {n for n in names if not n.startswith("@")}, mutated, elem)
            outs = []
            if not always_exits(s.body):
                outs.append(self.flow(s.orelse, body_out) if s.orelse else body_out)
            for h in s.handlers:
                ho = self.flow(h.body, hbase)
                if not always_exits(h.body):
                    outs.append(ho)
            res = frozenset()
            if outs:
                res = outs[0]
                for o in outs[1:]:
                    res = merge(res, o)
            if s.finalbody:
                res = self.flow(s.finalbody, res)
            return res
        if isinstance(s, ast.With):
            for item in s.items:
                self.record_expr(item.context_expr, facts)
            f2 = self.kill_stmt(facts, s) if False else facts
            for item in s.items:
                if item.optional_vars is not None:
                    f2 = self.kill(f2, {n.id for n in ast.walk(item.optional_vars) if isinstance(n, ast.Name)})
            return self.flow(s.body, f2)
        if isinstance(s, ast.Break):
            if self.loops:
                self.loops[-1]["breaks"].append(facts)
            return facts
        if isinstance(s, ast.Continue):
            if self.loops:
                self.loops[-1]["continues"].append(facts)
            return facts
        if isinstance(s, (ast.FunctionDef, ast.AsyncFunctionDef, ast.ClassDef, ast.Pass, ast.Import, ast.ImportFrom, ast.Global, ast.Nonlocal)):
            return facts
        if isinstance(s, ast.Assert):
            self.record_expr(s.test, facts)
            return facts | frozenset(self.assume(s.test, True))
        return facts

    def stable_ge0(self, body: List[ast.stmt], facts: FrozenSet[Fact]) -> Set[Fact]:
        """GE0 facts that survive a loop: the variable is only changed by `v += <nonneg>`."""
        out: Set[Fact] = set()
        cands = {f[1] for f in facts if f[0] == "GE0"}
        for v in cands:
            ok = True
            for n in ast.walk(ast.Module(body=body, type_ignores=[])):
                if isinstance(n, ast.Name) and n.id == v and isinstance(n.ctx, ast.Store):
                    ok = False     # plain assignment inside the loop
                if isinstance(n, ast.AugAssign) and isinstance(n.target, ast.Name) and n.target.id == v:
                    if not (isinstance(n.op, ast.Add) and self.nonneg_weak(n.value, facts, cands)):
                        ok = False
                    else:
                        ok = ok and True
            # AugAssign target appears as Name Store too; recheck ignoring those
            stores = [n for n in ast.walk(ast.Module(body=body, type_ignores=[])) if isinstance(n, ast.Name) and n.id == v and isinstance(n.ctx, ast.Store)]
            augs = [n for n in ast.walk(ast.Module(body=body, type_ignores=[])) if isinstance(n, ast.AugAssign) and isinstance(n.target, ast.Name) and n.target.id == v]
            if len(stores) == len(augs) and all(isinstance(a.op, ast.Add) and self.nonneg_weak(a.value, facts, cands) for a in augs):
                out.add(("GE0", v))
        return out

    def nonneg_weak(self, e: ast.expr, facts, cands) -> bool:
        ci = const_int(e)
        if ci is not None:
            return ci >= 0
        if isinstance(e, ast.Name):
            return e.id in cands or e.id in self.nonneg_names
        if isinstance(e, ast.Call) and isinstance(e.func, ast.Name) and e.func.id == "len":
            return True
        if isinstance(e, ast.BinOp) and isinstance(e.op, (ast.Add, ast.Mult)):
            return self.nonneg_weak(e.left, facts, cands) and self.nonneg_weak(e.right, facts, cands)
        return False

    nonneg_names: Set[str] = set()


def strip(t: str) -> str:
    t = t.strip()
    if t.startswith("(") and t.endswith(")"):
        try:
            return norm(ast.parse(t, mode="eval").body)
        except SyntaxError:
            return t
    return t


def merge(a: FrozenSet[Fact], b: FrozenSet[Fact]) -> FrozenSet[Fact]:
    """Join at a control-flow merge: intersection, with interval facts joined to their hull and
    `x == -1` joined with `0 <= x < len(s)` to IDXM1(x, s)."""
    out = set(a & b)
    ia = {f[1]: f for f in a if f[0] == "INT"}
    ib = {f[1]: f for f in b if f[0] == "INT"}
    for k in ia.keys() & ib.keys():
        out.add(("INT", k, min(ia[k][2], ib[k][2]), max(ia[k][3], ib[k][3])))
    for x, y in ((a, b), (b, a)):
        for f in x:
            if f[0] == "IDX":
                v, seq = f[1], f[2]
                if ("INT", v, -1, -1) in y or ("IDXM1", v, seq) in y:
                    out.add(("IDXM1", v, seq))
            if f[0] == "IDXM1" and (f in y or ("IDX", f[1], f[2]) in y or ("INT", f[1], -1, -1) in y):
                out.add(f)
    return frozenset(out)


def backedge_assigned(stmts: List[ast.stmt]) -> Set[str]:
    """Names assigned on some path through `stmts` that completes normally or continues
    (i.e. can reach the next loop iteration)."""
    out: Set[str] = set()

    def leaves_loop(block: List[ast.stmt]) -> bool:
        if not block:
            return False
        last = block[-1]
        if isinstance(last, (ast.Break, ast.Return, ast.Raise)):
            return True
        if isinstance(last, ast.If):
            return leaves_loop(last.body) and leaves_loop(last.orelse)
        return False

    def visit(block: List[ast.stmt]) -> Set[str]:
        if leaves_loop(block):
            return set()
        acc: Set[str] = set()
        for st in block:
            if isinstance(st, ast.If):
                acc |= visit(st.body) | visit(st.orelse)
                for n in ast.walk(st.test):
                    if isinstance(n, ast.NamedExpr):
                        acc.add(n.target.id)
            elif isinstance(st, (ast.For, ast.While, ast.With, ast.Try)):
                for n in ast.walk(st):
                    if isinstance(n, ast.Name) and isinstance(n.ctx, (ast.Store, ast.Del)):
                        acc.add(n.id)
            else:
                for n in ast.walk(st):
                    if isinstance(n, ast.Name) and isinstance(n.ctx, (ast.Store, ast.Del)):
                        acc.add(n.id)
        return acc
    return visit(stmts)


def rename_fact(f: Fact, mapping: Dict[str, str]) -> Fact:
    """the fact with identifiers renamed (inside expression texts too)"""
    import re as _re

    def ren(part):
        if isinstance(part, str):
            if not mapping:
                return part
            return _re.sub(r"(?<![\w.])(" + "|".join(_re.escape(k) for k in mapping) + r")(?![\w])", lambda m_: mapping[m_.group(1)], part)
        if isinstance(part, frozenset):
            return frozenset(rename_fact(g, mapping) for g in part)
        return part
    return (f[0],) + tuple(ren(p_) for p_ in f[1:])
